#!/bin/sh
# apply each kept seeded change to /repo, run the target property's quick check, undo the change
# usage: tools/run_seeded.sh [seed] [ids...]
SEED=${1:-1}; shift
IDS=${@:-$(ls /verif/seeded)}
cd /verif
for ID in $IDS; do
  P=/verif/seeded/$ID/patch.diff
  PROP=$(echo $ID | cut -c1-3)
  git -C /repo diff --quiet || { echo "/repo is dirty, aborting"; exit 2; }
  git -C /repo apply --check $P 2>/dev/null || { echo "$ID: patch does not apply to /repo HEAD"; continue; }
  git -C /repo apply $P
  START=$(date +%s)
  VERIF_SEED=$SEED ./check $PROP --tier quick > /tmp/seeded_$ID.log 2>&1; RC=$?
  END=$(date +%s)
  git -C /repo checkout -- .
  echo "$ID: exit=$RC secs=$((END-START)) $(grep -c '^VIOLATION' /tmp/seeded_$ID.log) violation line(s): $(grep -A1 '^VIOLATION' /tmp/seeded_$ID.log | grep signature | head -2 | cut -c1-160 | tr '\n' ' ')"
done
