#!/venv/bin/python
"""tools/add_fixed.py Xnn <commit> C01,C04 <replay.json> "<what failed>"  - append a fixed entry (regression case = the replay's case)"""
import json
import sys

xid, commit, props, replay, what = sys.argv[1:6]
props = props.split(",")
path = "/verif/known_findings.json"
d = json.load(open(path))
case = json.load(open(replay))["case"]
assert not any(e["id"] == xid + "-fixed" for e in d["findings"])
d["findings"].append(
    {
        "id": xid + "-fixed",
        "status": "fixed",
        "properties": props,
        "commit": commit,
        "what_failed": what,
        "line": f"fixed: property={props[0]} {commit} {what}",
        "minimal_case": case,
    }
)
json.dump(d, open(path, "w"), indent=1)
print("added", xid)
