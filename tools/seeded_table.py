#!/venv/bin/python
"""build the markdown table of seeded changes from run_seeded logs: tools/seeded_table.py log1 [log2 ...]"""
import json, os, re, sys
res = {}
for path in sys.argv[1:]:
    seed = re.search(r"s(\d+)", os.path.basename(path))
    for line in open(path):
        m = re.match(r"^(C\d\d b?|C\d\db?): exit=(\d+) secs=(\d+) (\d+) violation", line)
        if m:
            res.setdefault(m.group(1), []).append((os.path.basename(path), int(m.group(2)), int(m.group(3)), line.split("violation line(s):")[1].strip()[:90]))
print("| id | property | change (from meta.json) | needs | quick-tier result |")
print("|---|---|---|---|---|")
for sid in sorted(os.listdir("/verif/seeded")):
    meta = json.load(open(f"/verif/seeded/{sid}/meta.json"))
    runs = res.get(sid, [])
    out = "; ".join(f"{'caught' if rc == 1 else 'missed'} ({name.replace('.log','')}, {secs}s)" for name, rc, secs, _ in runs) or "not run"
    summ = str(meta.get("summary", "")).replace("|", "/").replace("\n", " ")[:230]
    needs = str(meta.get("needs", "")).replace("|", "/").replace("\n", " ")[:200]
    print(f"| {sid} | {sid[:3]} | {summ} | {needs} | {out} |")
