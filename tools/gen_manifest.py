#!/venv/bin/python
"""Regenerate /verif/MANIFEST.json from the property modules that exist (run from /verif)."""

import importlib
import json
import os
import sys

HERE = os.path.dirname(os.path.dirname(os.path.abspath(__file__)))
sys.path.insert(0, HERE)
sys.path.insert(0, "/repo/src")

ALL = [f"C{n:02d}" for n in range(1, 21)]
checks = []
missing = []
for pid in ALL:
    path = os.path.join(HERE, "ngoverif", "props", pid.lower() + ".py")
    if not os.path.exists(path):
        missing.append(pid)
        continue
    mod = importlib.import_module(f"ngoverif.props.{pid.lower()}")
    checks.append(
        {
            "property_id": pid,
            "quick_cmd": f"./check {pid} --tier quick",
            "thorough_cmd": f"./check {pid} --tier thorough",
            "evidence_file": f"evidence/{pid}.json",
            "replay_cmd_template": f"./check {pid} --replay {{path}}",
            "engine": "ngoverif",
            "level_claimed": {
                "category": getattr(mod, "LEVEL", "exploration"),
                "text": mod.LEVEL_TEXT,
                "design_ref": f"DESIGN.md section 6 / {pid}",
            },
            "level_note": mod.LEVEL_NOTE,
            "technique": mod.TECHNIQUE,
        }
    )

manifest = {
    "version": 1,
    "setup_cmd": "./setup.sh",
    "notes": "All checks: ./check <Cxx> --tier quick|thorough (VERIF_SEED / VERIF_TIER honoured). Exit 0 held / 1 VIOLATION line / 2 harness error. Code under test is imported from /repo/src of the working tree on every run.",
    "hooks": {
        "guard": "NGO_VERIF",
        "enable": "No source hook: with NGO_VERIF=1 (set by ./check for the harness process only) ngoverif/trace.py swaps the pass classes and normalisation functions bound in ngo.api for recording wrappers. /repo is not modified by instrumentation.",
        "baseline_off_cmd": "cd /repo && /venv/bin/python -m pytest -ra -q -p no:cacheprovider --timeout=900",
        "source_commits": [],
        "add_only": True,
    },
    "engines": [
        {
            "name": "ngoverif",
            "path": "ngoverif/",
            "serves_properties": [c["property_id"] for c in checks],
            "kind_free_text": "Hypothesis-driven generators (free grammar, pass-shaped templates, mutated corpus seeds) + clingo differential oracle + pass tracing/attribution + ddmin shrinking; 16 shards",
        }
    ],
    "checks": checks,
    "not_applicable": [
        {"property_id": pid, "reason": "check not built yet in this round (will be decided by generated-input search, see DESIGN.md section 6)"}
        for pid in missing
    ],
}
with open(os.path.join(HERE, "MANIFEST.json"), "w", encoding="utf8") as fh:
    json.dump(manifest, fh, indent=1)
print("checks:", [c["property_id"] for c in checks], "missing:", missing)
