#!/venv/bin/python
"""probe: how often does property <pid>'s strategy produce a failing case (run with NGO_REPO pointing at a mutant worktree)?
usage: NGO_REPO=/tmp/wt/Cxx tools/probe.py <pid> <n> <seed> [origin-substring]"""
import sys, os
HERE = os.path.dirname(os.path.dirname(os.path.abspath(__file__)))
sys.path.insert(0, HERE)
from ngoverif import env; env.setup()
import importlib
from collections import Counter
from hypothesis import given, settings, seed, Phase, HealthCheck
from ngoverif.runner import plain_generation; plain_generation()
pid, n, sd = sys.argv[1], int(sys.argv[2]), int(sys.argv[3])
sub = sys.argv[4] if len(sys.argv) > 4 else ""
mod = importlib.import_module(f"ngoverif.props.{pid.lower()}")
c = Counter(); shown = [0]
@seed(sd)
@settings(max_examples=n, database=None, deadline=None, phases=[Phase.generate], suppress_health_check=list(HealthCheck))
@given(mod.strategy("quick"))
def t(case):
    if sub and sub not in case.origin:
        c["skipped"] += 1; return
    out = mod.evaluate(case, "quick")
    c[out.status + ":" + out.reason] += 1
    for l in set(out.labels):
        if l.startswith("fired:"): c[l] += 1
    for k in getattr(out, "known", []): c["known:" + k] += 1
    if out.status == "fail":
        f = out.failure
        c["FAIL " + str(f.get("kind")) + "|" + str((f.get("attribution") or {}).get("pass"))] += 1
        if shown[0] < 2:
            shown[0] += 1
            print("--- FAIL", f.get("kind"), str(f.get("detail"))[:200]); print(case.src); print(case.traits, case.IN, f.get("instance"))
t()
import ngo; print(ngo.__file__)
for k, v in sorted(c.items()): print(f"{v:6d} {k}")
