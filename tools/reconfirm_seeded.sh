#!/bin/sh
# re-confirm every kept seeded change against /repo's current HEAD in ONE scratch worktree outside /repo and /verif:
# patch applies, demo passes without it, the 466 tests pass with it, demo fails with it.  The worktree is removed afterwards.
# usage: tools/reconfirm_seeded.sh [ids...]     (writes one line per id)
WT=/tmp/wt_reconfirm
git -C /repo worktree remove --force $WT 2>/dev/null
git -C /repo worktree add --detach $WT HEAD >/dev/null 2>&1 || exit 2
IDS=${@:-$(ls /verif/seeded)}
for ID in $IDS; do
  S=/verif/seeded/$ID
  cd $WT && git checkout -q -- . 
  git apply --check $S/patch.diff 2>/dev/null || { echo "$ID: patch does not apply to HEAD"; continue; }
  NGO_SRC=$WT/src PYTHONPATH=$WT/src /venv/bin/python $S/demo.py >/dev/null 2>&1; D0=$?
  git apply $S/patch.diff
  PYTHONPATH=$WT/src /venv/bin/python -m pytest -q -p no:cacheprovider --timeout=900 -x >/tmp/reconfirm_pytest.log 2>&1; T=$?
  NGO_SRC=$WT/src PYTHONPATH=$WT/src /venv/bin/python $S/demo.py >/dev/null 2>&1; D1=$?
  echo "$ID: demo_without=$D0 tests_with=$T demo_with=$D1 head=$(git -C /repo log --format=%h -1) $(tail -1 /tmp/reconfirm_pytest.log)"
done
cd /; git -C /repo worktree remove --force $WT
