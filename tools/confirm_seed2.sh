#!/bin/sh
# confirm a second-round seeded change in /tmp/wt2/<ID>
ID=$1; WT=/tmp/wt2/$ID
cd $WT || exit 2
[ -f patch.diff ] || { echo "$ID: no patch.diff yet"; exit 2; }
git checkout -q -- src 2>/dev/null
git apply --check patch.diff || { echo "$ID: patch does not apply to worktree HEAD"; exit 2; }
PYTHONPATH=$WT/src /venv/bin/python demo.py >/tmp/wt2/$ID.demo0.log 2>&1; D0=$?
git apply patch.diff
PYTHONPATH=$WT/src /venv/bin/python -m pytest -q -p no:cacheprovider --timeout=900 >/tmp/wt2/$ID.pytest.log 2>&1; T=$?
PYTHONPATH=$WT/src /venv/bin/python demo.py >/tmp/wt2/$ID.demo1.log 2>&1; D1=$?
echo "$ID: demo_without=$D0 tests_with=$T demo_with=$D1 $(tail -1 /tmp/wt2/$ID.pytest.log)"
