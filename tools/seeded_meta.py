#!/venv/bin/python
"""add to every /verif/seeded/<id>/meta.json what I ran myself: the re-confirmation against /repo HEAD (tools/reconfirm_seeded.sh log)
and the result of the targeted property's quick check with the change applied (tools/run_seeded.sh logs).
usage: tools/seeded_meta.py <reconfirm.log> <matrix_s1.log> [<matrix_s2.log> ...]"""
import json, os, re, sys

reconf = {}
for line in open(sys.argv[1]):
    m = re.match(r"^(C\d\db?): demo_without=(\d+) tests_with=(\d+) demo_with=(\d+) head=(\w+) (.*)$", line.strip())
    if m:
        reconf[m.group(1)] = {"repo_head": m.group(5), "demo_exit_without_change": int(m.group(2)), "pytest_exit_with_change": int(m.group(3)), "demo_exit_with_change": int(m.group(4)), "pytest_summary": m.group(6)}
runs = {}
for path in sys.argv[2:]:
    seed = re.search(r"s(\d+)", os.path.basename(path)).group(1)
    for line in open(path):
        m = re.match(r"^(C\d\db?): exit=(\d+) secs=(\d+) (\d+) violation line\(s\): ?(.*)$", line.strip())
        if m:
            runs.setdefault(m.group(1), []).append({"command": f"git -C /repo apply seeded/{m.group(1)}/patch.diff; VERIF_SEED={seed} ./check {m.group(1)[:3]} --tier quick; git -C /repo checkout -- .", "exit": int(m.group(2)), "seconds": int(m.group(3)), "caught": m.group(2) == "1", "first_signature": m.group(5)[:200]})
for sid in sorted(os.listdir("/verif/seeded")):
    p = f"/verif/seeded/{sid}/meta.json"
    meta = json.load(open(p))
    meta["breaks_property"] = sid[:3]
    meta["origin"] = "written by a fresh sub-agent that saw only the property text and a scratch worktree under /tmp (round %d)" % (2 if sid.endswith("b") else 1)
    if sid in reconf:
        meta["confirmed_by_me"] = dict(reconf[sid], how="tools/reconfirm_seeded.sh: fresh scratch worktree of /repo HEAD under /tmp (removed afterwards); demo.py without the change, then `git apply patch.diff`, the pinned pytest suite, demo.py again")
    if sid in runs:
        meta["checks_run"] = runs[sid]
    json.dump(meta, open(p, "w"), indent=1)
print("updated", len(os.listdir("/verif/seeded")))
