#!/venv/bin/python
import json,sys
for f in sys.argv[1:]:
    d=json.load(open(f)); c=d['case']; fl=d['failure']
    print('=====',f); print('SRC:\n'+c['src']); print('IN',c['IN'],'OUT',c['OUT'],'traits',c['traits'],'consts',c['consts']); print('INST:',c['instances'])
    print('KIND',fl['kind'],str(fl.get('detail'))[:400])
    a=fl.get('attribution') or {}
    print('PASS',a.get('pass'),a.get('how')); print('BEFORE:\n'+str(a.get('before'))); print('AFTER:\n'+str(a.get('after')))
