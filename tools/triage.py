#!/venv/bin/python
"""Run the minimal case of every open finding (or a replay file) through every property's evaluator:
which properties does it violate, and does the finding's matcher accept the failure there?"""
import importlib, json, sys, os
HERE = os.path.dirname(os.path.dirname(os.path.abspath(__file__)))
sys.path.insert(0, HERE)
from ngoverif import env; env.setup()
from ngoverif import findings, triggers
from ngoverif.core import Case
PROPS = ["C01","C02","C04","C05","C06","C07","C08","C09","C10","C11","C12","C13","C14","C15","C16","C20","C03"]
FORCED = {"C05": [], "C08": ["cleanup"], "C09": ["unused"], "C10": ["duplication"], "C11": ["symmetry"], "C12": ["minmax_chains"], "C13": ["sum_chains"], "C14": ["math"], "C15": ["inline"], "C16": ["projection"]}
def run(fid, cj, matcher):
    res = {}
    for pid in PROPS:
        mod = importlib.import_module(f"ngoverif.props.{pid.lower()}")
        c = dict(cj)
        if pid in FORCED:
            if not set(cj.get("traits", [])) <= set(FORCED[pid]) and FORCED[pid] != cj.get("traits"):
                # the defect needs traits this property does not enable
                if not set(cj.get("traits", [])) <= set(FORCED[pid]):
                    res[pid] = "n/a(traits)"; continue
            c["traits"] = FORCED[pid]
        if pid == "C05": c["IN"], c["OUT"] = [], []
        if pid == "C06" and set(c.get("traits", [])) & {"unused", "inline"}: res[pid] = "n/a(traits)"; continue
        try:
            out = mod.evaluate(Case.from_json(c), "quick")
        except Exception as e:
            res[pid] = f"error {type(e).__name__}"; continue
        if getattr(out, "known", None):
            res[pid] = f"FAIL (known: {sorted(set(out.known))}) matched=True"
        elif out.status == "fail":
            ok = triggers.matches(matcher, c, out.failure) if matcher else None
            res[pid] = f"FAIL kind={out.failure.get('kind')} pass={(out.failure.get('attribution') or {}).get('pass')} matched={ok}"
        else:
            res[pid] = out.status + (":" + out.reason if out.reason else "")
    print("==", fid)
    for k, v in res.items(): print("   ", k, v)
    return [k for k, v in res.items() if v.startswith("FAIL")]
if len(sys.argv) > 1 and sys.argv[1].endswith(".json"):
    d = json.load(open(sys.argv[1])); run(sys.argv[1], d["case"], None)
else:
    sel = sys.argv[1:] 
    for f in findings.load():
        if f.get("status") != "open": continue
        if sel and not any(f["id"].startswith(s) for s in sel): continue
        fails = run(f["id"], f["minimal_case"], f.get("matcher"))
        print("   -> properties:", json.dumps(fails), " listed:", json.dumps(f["properties"]))
