import json, random, sys, time, traceback, signal, os
from multiprocessing import Pool
from p import *
from ngo.utils.ast import predicates, headderivable_predicates
import clingo
corpus=json.load(open('corpus.json'))
FILE2TRAIT={'test_math_simplification.py':'math','test_minmax_aggregates.py':'minmax_chains','test_inline.py':'inline','test_literal_duplication.py':'duplication','test_sum_aggregates.py':'sum_chains','test_cleanup.py':'cleanup','test_symmetry.py':'symmetry','test_unused.py':'unused','test_projection.py':'projection'}
class TO(Exception): pass
def alarm(*a): raise TO()
signal.signal(signal.SIGALRM, alarm)
def sigs(prg):
    allp=set(); der=set()
    for s in prg:
        for sp in predicates(s): allp.add((sp.pred.name,sp.pred.arity))
        for sp in headderivable_predicates(s): der.add((sp.pred.name,sp.pred.arity))
    return allp,der
def consts(src):
    import re
    ints=set(int(x) for x in re.findall(r'(?<![A-Za-z_0-9])-?\d+',src))
    return ints
def gen_instance(rnd, inp, src):
    ints=list({-1,0,1,2,3}|{i for i in consts(src) if abs(i)<50})
    pool=ints*3+['a','b']
    facts=[]
    for (n,a) in sorted(inp):
        k=rnd.choice([0,1,2,3,4])
        for _ in range(k):
            if a==0: facts.append(f"{n}.")
            else: facts.append(f"{n}({','.join(str(rnd.choice(pool if rnd.random()<0.3 else ints)) for _ in range(a))}).")
    return " ".join(facts)
def solve2(text, facts, proj, limit=3000, msgs=None):
    msgs=[] if msgs is None else msgs
    ctl=Control(["0","--opt-mode=enum"], logger=lambda c,m: msgs.append((c,m)))
    ctl.add("base",[],text+"\n"+facts)
    ctl.ground([("base",[])])
    res=[]
    def on(m):
        atoms=[a for a in m.symbols(atoms=True) if (a.name,len(a.arguments)) in proj]
        res.append((tuple(sorted(map(str,atoms))), tuple(zip(m.priority,m.cost))))
        return len(res)<limit
    ctl.solve(on_model=on)
    return res, msgs
def run(idx):
    o=corpus[idx]; src=o['src']; rnd=random.Random(idx)
    out=[]
    try:
        prg=parse(src)
    except Exception as e:
        return [(idx,'parse-error',str(e)[:100])]
    allp,der=sigs(prg)
    inp=allp-der
    trait=FILE2TRAIT.get(o['file'])
    configs=[('none',[]),('default',[t for t in TRAITS if t!='duplication']),('all',TRAITS)]
    if trait: configs.insert(0,(trait,[trait]))
    for cname,traits in configs:
        IN=[Predicate(n,a) for n,a in sorted(inp)]
        # outputs: all predicates (whole vocabulary) for non-unused/inline; else the der preds random half
        if 'unused' in traits or 'inline' in traits:
            OUTs=sorted(p for p in allp if rnd.random()<0.6)
        else:
            OUTs=sorted(allp)
        OUT=[Predicate(n,a) for n,a in OUTs]
        try:
            signal.alarm(20)
            kw={t:(t in traits) for t in TRAITS}
            res=optimize(parse(src), IN, OUT, **kw)
            signal.alarm(0)
        except TO:
            out.append((idx,cname,'TIMEOUT','')); continue
        except BaseException as e:
            signal.alarm(0)
            tb=traceback.extract_tb(e.__traceback__)
            fr=[f for f in tb if '/ngo/' in f.filename][-1] if any('/ngo/' in f.filename for f in tb) else tb[-1]
            out.append((idx,cname,'CRASH',f"{type(e).__name__}@{os.path.basename(fr.filename)}:{fr.name}:{fr.lineno}")); continue
        text="\n".join(map(str,res))
        proj=set(OUTs) | (set(inp) if True else set())
        for k in range(12):
            facts=gen_instance(rnd,inp,src) if k else ""
            try:
                a,ma=solve2(src,facts,proj)
            except RuntimeError as e:
                break
            if any(c in (clingo.MessageCode.OperationUndefined,) for c,m in ma): continue
            if len(a)>=3000: continue
            mb=[]
            try:
                b,_=solve2(text,facts,proj,msgs=mb)
            except RuntimeError as e:
                out.append((idx,cname,'RESULT-INVALID',str(e)[:80]+" | "+" ".join(m for c,m in mb if 'error' in m)[:200])); break
            if set(a)!=set(b):
                out.append((idx,cname,'DIFF',facts)); break
    return out
if __name__=="__main__":
    t=time.time()
    with Pool(16) as pool:
        allres=pool.map(run, range(len(corpus)), chunksize=1)
    flat=[x for r in allres for x in r]
    json.dump(flat,open('pilot_out.json','w'),indent=0)
    from collections import Counter
    print("time",time.time()-t)
    print(Counter((x[2]) for x in flat))
    print(Counter((corpus[x[0]]['file'],x[1],x[2]) for x in flat if x[1] not in('default','all')))
    print(Counter(x[3] for x in flat if x[2]=='CRASH'))
