import sys, time, logging
from clingo import Control
from clingo.ast import parse_string, ProgramBuilder
from ngo import optimize, auto_detect_input, auto_detect_output, Predicate
logging.disable(logging.CRITICAL)
TRAITS=["cleanup","unused","duplication","symmetry","minmax_chains","sum_chains","math","inline","projection"]
def parse(s):
    out=[]; parse_string(s,out.append); return out
def opt(src, inp="auto", out="auto", traits=None):
    prg=parse(src)
    if inp=="auto": inp=auto_detect_input(prg)
    if out=="auto": out=auto_detect_output(prg)
    if traits is None: traits=[t for t in TRAITS if t!="duplication"]
    kw={t:(t in traits) for t in TRAITS}
    return optimize(prg, inp, out, **kw)
def solve(text, facts="", proj=None, opt=False):
    msgs=[]
    ctl=Control(["0","--opt-mode=ignore" if not opt else "--opt-mode=enum"], logger=lambda c,m: msgs.append((c,m)))
    ctl.add("base",[],text+"\n"+facts)
    ctl.ground([("base",[])])
    res=[]
    def on(m):
        atoms=m.symbols(atoms=True)
        if proj is not None:
            atoms=[a for a in atoms if (a.name,len(a.arguments)) in proj]
        res.append((tuple(sorted(map(str,atoms))), tuple(m.cost)))
    ctl.solve(on_model=on)
    return sorted(res), msgs
if __name__=="__main__":
    src=open(sys.argv[1]).read() if len(sys.argv)>1 else sys.stdin.read()
    for s in opt(src): print(s)
