import json, logging
logging.disable(logging.CRITICAL)
from clingo.ast import AST, ASTType, Sign, parse_string
from ngo import auto_detect_input, auto_detect_output, Predicate
def parse(s):
    o=[]; parse_string(s,o.append); return o
def walk(node, fn, ctx):
    """generic walk: fn(node, ctx) may return new ctx"""
    c = fn(node, ctx)
    for k in node.child_keys:
        ch = getattr(node,k)
        if ch is None: continue
        if isinstance(ch, AST): walk(ch, fn, c)
        else:
            for x in ch:
                if isinstance(x, AST): walk(x, fn, c)
def atoms_in(node):
    out=[]
    def fn(n,ctx):
        if n.ast_type==ASTType.SymbolicAtom and n.symbol.ast_type==ASTType.Function:
            out.append((n.symbol.name,len(n.symbol.arguments)))
        return ctx
    walk(node,fn,None); return out
def pos_heads(stm):
    res=[]
    h=stm.head
    def lit(l):
        if l.ast_type==ASTType.Literal and l.sign==Sign.NoSign and l.atom.ast_type==ASTType.SymbolicAtom and l.atom.symbol.ast_type==ASTType.Function:
            res.append((l.atom.symbol.name,len(l.atom.symbol.arguments)))
    if h.ast_type==ASTType.Literal: lit(h)
    elif h.ast_type in (ASTType.Aggregate, ASTType.Disjunction):
        for e in h.elements: lit(e.literal)
    elif h.ast_type==ASTType.HeadAggregate:
        for e in h.elements: lit(e.condition.literal)
    return res
def ref(prg):
    occurs=set(); poshead=set(); excluded=set()
    for s in prg:
        if s.ast_type==ASTType.Rule:
            occurs.update(atoms_in(s))
            ph=pos_heads(s); poshead.update(ph)
            body=set()
            for b in s.body: body.update(atoms_in(b))
            for p in ph:
                if p not in body: excluded.add(p)
        elif s.ast_type==ASTType.Minimize:
            occurs.update(atoms_in(s))
    U=occurs-poshead
    out=set()
    for s in prg:
        if s.ast_type==ASTType.ShowSignature: out.add((s.name,s.arity))
        elif s.ast_type==ASTType.ShowTerm:
            for b in s.body: out.update(atoms_in(b))
    return U, excluded, out
corpus=json.load(open('corpus.json'))
bad=0
for o in corpus:
    try: prg=parse(o['src'])
    except Exception: continue
    if any(s.ast_type==ASTType.Rule and 'Theory' in str(s.head.ast_type) for s in prg): continue
    U,ex,out=ref(prg)
    ai={(p.name,p.arity) for p in auto_detect_input(prg)}
    ao={(p.name,p.arity) for p in auto_detect_output(prg)}
    if not U<=ai or ai&ex or ao!=out:
        bad+=1; print(o['file'],o['idx'],"U-ai",U-ai,"ai&ex",ai&ex,"out",ao^out); print(o['src'][:300])
print("bad",bad,"of",len(corpus))
