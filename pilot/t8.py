import json, logging, random, itertools
logging.disable(logging.CRITICAL)
from clingo import Control, Function as F
from clingo.ast import AST, ASTType, Sign, parse_string
from ngo.dependency import DomainPredicates
from ngo.normalize import preprocess
from ngo.utils.ast import Predicate, AnnotatedPredicate, predicates, headderivable_predicates
from ngo.utils.globals import UniqueNames
from pilot import gen_instance, sigs
def parse(s):
    o=[]; parse_string(s,o.append); return o
def run(src, rnd):
    prg=preprocess(parse(src))
    allp,der=sigs(prg); inp=allp-der
    IN=[Predicate(n,a) for n,a in sorted(inp)]
    dp=DomainPredicates(UniqueNames(prg,IN),prg)
    extra=[]; roles=[]
    for (n,a) in sorted(der):
        p=Predicate(n,a)
        if a==0 or dp.is_static(p) or not dp.has_domain(p): continue
        extra+=list(dp.create_domain(p))
        dom=dp.domain_predicate(p)
        # choose annotated positions: random nonempty subset, position in it
        k=rnd.randint(1,a); pos=tuple(sorted(rnd.sample(range(a),k))); at=rnd.choice(pos)
        ap=AnnotatedPredicate(p,pos)
        extra+=list(dp.create_next_pred_for_annotated_pred(ap,at))
        roles.append((p,dom,pos,at,dp.min_anon_predicate(ap,at),dp.max_anon_predicate(ap,at),dp.next_anon_predicate(ap,at)))
    if not roles: return None
    text="\n".join(map(str,prg+extra))
    problems=[]
    for it in range(6):
        facts=gen_instance(rnd,inp,src) if it else ""
        msgs=[]
        ctl=Control(["0"],logger=lambda c,m: msgs.append(m))
        try:
            ctl.add("base",[],text+"\n"+facts); ctl.ground([("base",[])])
        except RuntimeError as e:
            problems.append(("INVALID",facts,[m for m in msgs if 'error' in m][:1])); break
        models=[]
        ctl.solve(on_model=lambda m: (models.append(set(m.symbols(atoms=True))), len(models)<200)[1])
        if len(models)>=200: continue
        for (p,dom,pos,at,mn,mx,nx) in roles:
            exts=[]
            for M in models:
                def ext(q): return {tuple(s.arguments) for s in M if s.name==q.name and len(s.arguments)==q.arity}
                P,D,MN,MX,NX=ext(p),ext(dom),ext(mn),ext(mx),ext(nx)
                if not P<=D: problems.append(("NOT-OVERAPPROX",str(p),facts)); 
                exts.append((frozenset(D),frozenset(MN),frozenset(MX),frozenset(NX)))
                groups={}
                gpos=[i for i in range(p.arity) if i not in pos]
                for t in D: groups.setdefault(tuple(t[i] for i in gpos),set()).add(t[at])
                eMN={g+(min(v),) for g,v in groups.items()}; eMX={g+(max(v),) for g,v in groups.items()}
                eNX=set()
                for g,v in groups.items():
                    sv=sorted(v)
                    for a_,b_ in zip(sv,sv[1:]): eNX.add(g+(a_,b_))
                if MN!=eMN: problems.append(("MIN",str(p),pos,at,facts))
                if MX!=eMX: problems.append(("MAX",str(p),pos,at,facts))
                if NX!=eNX: problems.append(("NEXT",str(p),pos,at,facts, sorted(map(str,NX))[:5], sorted(map(str,eNX))[:5]))
            if len(set(exts))>1: problems.append(("CHOICE-DEPENDENT",str(p),facts))
    return problems
corpus=json.load(open('corpus.json'))
tot=0; bad=0
for i,o in enumerate(corpus):
    rnd=random.Random(i)
    try: r=run(o['src'],rnd)
    except Exception as e:
        print("EXC",o['file'],o['idx'],type(e).__name__,str(e)[:100]); continue
    if r is None: continue
    tot+=1
    if r:
        bad+=1; print("----",o['file'],o['idx'],r[:2]); print(o['src'].strip()[:400])
print("programs with roles",tot,"bad",bad)
