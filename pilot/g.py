import logging, sys, time, os, json, signal, traceback
logging.disable(logging.CRITICAL)
from hypothesis import given, settings, strategies as st, seed, HealthCheck, Phase
from collections import Counter
from p import parse, TRAITS
from pilot import solve2, sigs
from ngo import optimize, Predicate
import clingo
PREDS=[("p",1),("q",2),("r",2),("s",1),("t",3),("u",0),("w",1)]
VARS=["X","Y","Z","U","V"]
ints=st.integers(-2,4).map(str)
consts=st.sampled_from(["a","b"])
@st.composite
def atom(draw, bound, bind=False, ground=False):
    n,a=draw(st.sampled_from(PREDS))
    args=[]
    for _ in range(a):
        if ground: args.append(draw(st.one_of(ints,ints,consts)))
        elif bind: 
            k=draw(st.integers(0,9))
            args.append(draw(st.sampled_from(VARS)) if k<7 else (draw(ints) if k<9 else "_"))
        else:
            args.append(draw(st.sampled_from(sorted(bound))) if bound and draw(st.integers(0,9))<8 else draw(ints))
    return n+("("+",".join(args)+")" if a else ""), {x for x in args if x in VARS}
@st.composite
def term(draw, bound):
    if not bound: return draw(ints)
    k=draw(st.integers(0,9)); v=draw(st.sampled_from(sorted(bound)))
    if k<5: return v
    if k<7: return f"{v}{draw(st.sampled_from(['+','-','*']))}{draw(st.integers(0,3))}"
    if k<8: return f"{v}+{draw(st.sampled_from(sorted(bound)))}"
    return draw(ints)
OPS=["=","!=","<","<=",">",">="]
@st.composite
def aggregate(draw, bound, used):
    fn=draw(st.sampled_from(["#sum","#sum+","#count","#min","#max"]))
    els=[]
    for _ in range(draw(st.integers(1,2))):
        local={v for v in VARS if v not in bound}
        a,vs=draw(atom(bound|local, bind=True))
        conds=[a]; lb=set(vs)|bound
        if draw(st.booleans()):
            a2,_=draw(atom(lb)); conds.append(draw(st.sampled_from(["","not "]))+a2)
        w=draw(term(lb)); tup=[w]+[draw(st.sampled_from(sorted(lb))) for _ in range(draw(st.integers(0,2))) if lb]
        els.append(",".join(tup)+" : "+", ".join(conds))
    body=fn+"{ "+"; ".join(els)+" }"
    k=draw(st.integers(0,9))
    free=[v for v in VARS if v not in bound and v not in used]
    if k<4 and free:
        v=free[0]; return f"{v} = {body}", {v}
    g=draw(term(bound)); op=draw(st.sampled_from(OPS))
    if k<8: return f"{draw(st.sampled_from(['','not ']))}{g} {op} {body}", set()
    return f"{g} {draw(st.sampled_from(['<','<=']))} {body} {draw(st.sampled_from(['<','<=']))} {draw(term(bound))}", set()
@st.composite
def body(draw, maxpos=3):
    lits=[]; bound=set()
    for _ in range(draw(st.integers(1,maxpos))):
        a,vs=draw(atom(bound,bind=True)); lits.append(a); bound|=vs
    used=set(bound)
    for _ in range(draw(st.integers(0,3))):
        k=draw(st.integers(0,9))
        if k<3:
            a,_=draw(atom(bound)); lits.append(draw(st.sampled_from(["not ","not not "]))+a)
        elif k<6:
            lits.append(f"{draw(term(bound))} {draw(st.sampled_from(OPS))} {draw(term(bound))}")
        elif k<7 and bound:
            free=[v for v in VARS if v not in bound]
            if free: 
                lits.append(f"{free[0]} = {draw(term(bound))}"); bound=bound|{free[0]}
        elif k<9:
            s,nb=draw(aggregate(bound,used)); lits.append(s); bound=bound|nb
        else:
            a,_=draw(atom(bound)); c,cv=draw(atom(bound,bind=True)); lits.append(f"{a} : {c}")
    return lits,bound
@st.composite
def statement(draw):
    k=draw(st.integers(0,19))
    if k<2:
        a,_=draw(atom(set(),ground=True)); return a+"."
    lits,bound=draw(body())
    b=", ".join(lits) if k%2 else "; ".join(lits)
    if k<9:
        h,_=draw(atom(bound)); return f"{h} :- {b}."
    if k<12:
        h,_=draw(atom(bound)); c,cv=draw(atom(bound,bind=True))
        h2,_=draw(atom(bound|cv))
        ub=draw(st.sampled_from([""," 1"," 2"])); 
        return f"{{ {h}; {h2} : {c} }}{ub} :- {b}."
    if k<14: return f":- {b}."
    if k<15:
        h,_=draw(atom(bound)); h2,_=draw(atom(bound)); return f"{h} ; {h2} :- {b}."
    if k<18:
        w=draw(term(bound)); t=[draw(st.sampled_from(sorted(bound)))] if bound and draw(st.booleans()) else []
        return f":~ {b}. [{w}@{draw(st.integers(0,2))}{''.join(','+x for x in t)}]"
    w=draw(term(bound)); return f"#{draw(st.sampled_from(['minimize','maximize']))}{{ {w}@{draw(st.integers(0,1))},{draw(ints)} : {b.replace(';',',')} }}."
program=st.lists(statement(),min_size=1,max_size=6).map("\n".join)
def facts_for(draw, inp):
    fs=[]
    for (n,a) in sorted(inp):
        for _ in range(draw(st.integers(0,3))):
            fs.append(n+("("+",".join(draw(st.one_of(ints,ints,ints,consts)) for _ in range(a))+")" if a else "")+".")
    return " ".join(fs)
stats=Counter(); fails=[]
class TO(Exception): pass
def alarm(*a): raise TO()
signal.signal(signal.SIGALRM, alarm)
MODE=sys.argv[1] if len(sys.argv)>1 else "none"
N=int(sys.argv[2]) if len(sys.argv)>2 else 300
SEED=int(sys.argv[3]) if len(sys.argv)>3 else 1
@seed(SEED)
@settings(max_examples=N, database=None, deadline=None, suppress_health_check=list(HealthCheck), phases=[Phase.generate])
@given(st.data())
def test(data):
    src=data.draw(program)
    stats['gen']+=1
    try:
        prg=parse(src)
        msgs=[]
        ctl=clingo.Control(["0"],logger=lambda c,m: msgs.append((c,m))); ctl.add("base",[],src); ctl.ground([("base",[])])
    except RuntimeError:
        stats['src-invalid']+=1; return
    allp,der=sigs(prg); inp=allp-der
    IN=[Predicate(n,a) for n,a in sorted(inp)]; OUT=[Predicate(n,a) for n,a in sorted(allp)]
    traits={"none":[], "default":[t for t in TRAITS if t!="duplication"], "all":TRAITS}.get(MODE,[MODE])
    if 'unused' in traits or 'inline' in traits: pass
    try:
        signal.alarm(30); res=optimize(parse(src),IN,OUT,**{t:(t in traits) for t in TRAITS}); signal.alarm(0)
    except TO:
        stats['timeout']+=1; return
    except BaseException as e:
        signal.alarm(0)
        tb=traceback.extract_tb(e.__traceback__); fr=[f for f in tb if '/ngo/' in f.filename]
        key=f"{type(e).__name__}@{os.path.basename(fr[-1].filename)}:{fr[-1].name}" if fr else type(e).__name__
        stats['CRASH '+key]+=1; fails.append((key,src)); return
    text="\n".join(map(str,res))
    nf="\n".join(map(str,parse(src)))
    if text!=nf: stats['changed']+=1
    proj=set(allp)
    for k in range(4):
        facts=facts_for(data.draw,inp) if k else ""
        try: a,ma=solve2(src,facts,proj,limit=1500)
        except RuntimeError: stats['src+I invalid']+=1; continue
        if any(c!=clingo.MessageCode.AtomUndefined and 'No bound' not in m for c,m in ma): stats['precond']+=1; continue
        if len(a)>=1500: stats['toobig']+=1; continue
        mb=[]
        try: b,_=solve2(text,facts,proj,limit=6000,msgs=mb)
        except RuntimeError as e:
            stats['RESULT-INVALID']+=1; fails.append(("RESULT-INVALID "+" ".join(m for c,m in mb if 'error' in m)[:150],src)); return
        stats['compared']+=1
        norm=lambda L:{(x[0],tuple((p,c) for p,c in x[1] if c!=0)) for x in L}
        if norm(a)!=norm(b):
            stats['DIFF']+=1; fails.append(("DIFF facts="+facts,src)); return
if __name__=="__main__":
    t=time.time(); test()
    print(MODE, "time",round(time.time()-t,1), dict(stats))
    json.dump(fails,open(f'gfails_{MODE}_{SEED}.json','w'),indent=0)
