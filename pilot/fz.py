#!/venv/bin/python
import sys, os
sys.path.insert(0, os.environ.get('ATHERIS_DEPS', '/verif/.deps'))
import atheris
with atheris.instrument_imports(include=["ngo"]):
    import ngo
    from ngo import optimize
from hypothesis import given, strategies as st, settings, HealthCheck
from clingo.ast import parse_string
import logging; logging.disable(logging.CRITICAL)
cnt=[0]
@settings(database=None, deadline=None, suppress_health_check=list(HealthCheck))
@given(st.lists(st.sampled_from(["a(X) :- b(X), X < 3.","{c(X)} :- a(X).",":- c(X), c(Y), X != Y.","d(M) :- M = #max{X : c(X)}.","#minimize{X : d(X)}.","e :- 2 <= #sum{1,X : c(X)} <= 3."]), min_size=1, max_size=6))
def t(stmts):
    prg=[]; parse_string("\n".join(stmts), prg.append)
    cnt[0]+=1
    optimize(prg, [], [])
atheris.Setup(sys.argv, t.hypothesis.fuzz_one_input)
atheris.Fuzz()
