import ast, sys, json, glob, os
out=[]
for f in sorted(glob.glob('/repo/tests/test_*.py')):
    tree=ast.parse(open(f).read())
    for node in ast.walk(tree):
        if isinstance(node, ast.Call) and getattr(node.func,'attr',None)=='parametrize':
            if len(node.args)<2: continue
            vals=node.args[1]
            if not isinstance(vals,(ast.Tuple,ast.List)): continue
            for i,el in enumerate(vals.elts):
                first = el.elts[0] if isinstance(el,(ast.Tuple,ast.List)) and el.elts else el
                if isinstance(first, ast.Constant) and isinstance(first.value,str):
                    out.append({"file":os.path.basename(f),"idx":i,"src":first.value})
seen=set(); uniq=[]
for o in out:
    if o['src'] in seen: continue
    seen.add(o['src']); uniq.append(o)
json.dump(uniq,open('corpus.json','w'),indent=0)
from collections import Counter
print(len(out), len(uniq), Counter(o['file'] for o in uniq))
