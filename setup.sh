#!/bin/sh
# Offline set-up: everything comes from files on disk. ngo itself is pure Python and is
# imported from /repo/src of the working tree by every check (no build step).
DIR="$(cd "$(dirname "$0")" && pwd)"
cd "$DIR" || exit 2
WH=/opt/veriftools/wheels
need() { /venv/bin/python -c "import sys; sys.path.append('$DIR/.deps'); import $1" >/dev/null 2>&1; }
if ! need hypothesis; then
  /venv/bin/pip install --no-index --find-links "$WH" --target "$DIR/.deps" hypothesis >/dev/null 2>&1 || { echo "cannot install hypothesis"; exit 2; }
fi
if ! need atheris; then
  /venv/bin/pip install --no-index --find-links "$WH" --target "$DIR/.deps" atheris >/dev/null 2>&1 || echo "atheris not installable: thorough C03 runs without the coverage-guided stage"
fi
PYTHONPATH="/repo/src:$DIR:$DIR/.deps" /venv/bin/python -c "
import clingo, hypothesis, ngo, sympy
from ngoverif import env; env.setup()
print('setup ok: clingo', clingo.__version__, 'hypothesis', hypothesis.__version__, 'ngo from', ngo.__file__)
" || exit 2
