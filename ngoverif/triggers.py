"""Named, narrow trigger predicates identifying recorded findings (DESIGN.md section 5.4).

A matcher is a dict; every key present must hold:
  bucket  - crash bucket (exception type + innermost ngo frame)
  pass    - attributed pass application
  kinds   - list of failure kinds
  trigger - name of a predicate below, evaluated on the attributed pass application's
            input program (failure["attribution"]["before"]), the case and the instance
"""

import re
from typing import Callable

from clingo.ast import ASTType, ComparisonOperator, Sign

from . import astutil, oracle


def _prg(text: str) -> list:
    return oracle.try_parse(text) or []


def _before(case: dict, failure: dict) -> str:
    att = failure.get("attribution") or {}
    return att.get("before") or case.get("src", "")


def _after(case: dict, failure: dict) -> str:
    att = failure.get("attribution") or {}
    return att.get("after") or failure.get("result_text", "")


def _equalities(stm) -> list:
    """(variable, other side) for every literal that ngo's `_equality` reads as an assignment"""
    out = []
    for n in astutil.walk(stm):
        if n.ast_type == ASTType.Literal and n.sign == Sign.NoSign and n.atom.ast_type in (ASTType.BodyAggregate, ASTType.Aggregate):
            # V = #agg{...}: V depends on every variable inside the aggregate
            agg = n.atom
            for g in (agg.left_guard, agg.right_guard):
                if g is not None and g.comparison == ComparisonOperator.Equal and g.term.ast_type == ASTType.Variable:
                    out.append((g.term, agg.update(left_guard=None, right_guard=None)))
            continue
        if n.ast_type != ASTType.Literal or n.atom.ast_type != ASTType.Comparison:
            continue
        cmp_ = n.atom
        if len(cmp_.guards) != 1:
            continue
        op = cmp_.guards[0].comparison
        if not (
            (op == ComparisonOperator.Equal and n.sign == Sign.NoSign)
            or (op == ComparisonOperator.NotEqual and n.sign == Sign.Negation)
        ):
            continue
        out.append((cmp_.term, cmp_.guards[0].term))
    return out


def cyclic_equalities_in(text: str) -> bool:
    """some statement has equalities `V = t` whose variable dependencies are cyclic (X = t(X),
    or Y = C-2, C = Y+0); variable = variable equalities only merge names"""
    for stm in _prg(text):
        eqs = _equalities(stm)
        if not eqs:
            continue
        parent: dict = {}

        def find(x: str) -> str:
            while parent.get(x, x) != x:
                x = parent[x]
            return x

        for a, b in eqs:
            if a.ast_type == ASTType.Variable and b.ast_type == ASTType.Variable:
                parent[find(a.name)] = find(b.name)
        edges: dict = {}
        for a, b in eqs:
            for var, rest in ((a, b), (b, a)):
                if var.ast_type == ASTType.Variable and rest.ast_type != ASTType.Variable and var.name != "_":
                    edges.setdefault(find(var.name), set()).update(find(v) for v in astutil.variables_in(rest))
        for start in edges:
            seen: set = set()
            todo = list(edges[start])
            while todo:
                x = todo.pop()
                if x in seen:
                    continue
                seen.add(x)
                todo.extend(edges.get(x, ()))
            if start in seen:
                return True
    return False


def selfref_equality(case: dict, failure: dict) -> bool:
    """F-selfref: the attributed step's input (or the source) contains cyclic assignments"""
    return cyclic_equalities_in(_before(case, failure)) or cyclic_equalities_in(case.get("src", ""))


def negated_chain_in(text: str) -> bool:
    """a `not t1 op t2 op t3` literal (single negation, two or more guards)"""
    for stm in _prg(text):
        for n in astutil.walk(stm):
            if n.ast_type == ASTType.Literal and n.sign == Sign.Negation and n.atom.ast_type == ASTType.Comparison:
                if len(n.atom.guards) >= 2:
                    return True
    return False


def negated_chain(case: dict, failure: dict) -> bool:
    """F-negchain: the source contains a negated comparison chain"""
    return negated_chain_in(case.get("src", ""))


def classical_negation(case: dict, failure: dict) -> bool:
    """F-classical: the source contains a classically negated atom `-p(..)`"""
    for stm in _prg(case.get("src", "")):
        for n in astutil.walk(stm):
            if n.ast_type == ASTType.SymbolicAtom and n.symbol.ast_type == ASTType.UnaryOperation:
                return True
    return False


def aux_collides_with_out_only_declaration(case: dict, failure: dict) -> bool:
    """F-outdecl: every clashing predicate is declared as output only and does not occur in the source"""
    import ast as pyast  # pylint: disable=import-outside-toplevel

    try:
        clash = {tuple(x) for x in pyast.literal_eval(failure.get("detail", "[]"))}
    except (ValueError, SyntaxError):
        return False
    ins = {tuple(x) for x in case.get("IN", [])} if case.get("IN") != "auto" else set()
    voc = astutil.vocabulary(_prg(case.get("src", "")))
    return bool(clash) and not (clash & ins) and not (clash & voc)


TRIGGERS: dict[str, Callable[[dict, dict], bool]] = {
    "aux_collides_with_out_only_declaration": aux_collides_with_out_only_declaration,
    "classical_negation": classical_negation,
    "selfref_equality": selfref_equality,
    "negated_chain": negated_chain,
}


def matches(matcher: dict, case: dict, failure: dict) -> bool:
    """does the failure fall under the matcher"""
    if not matcher:
        return False
    if "bucket" in matcher and failure.get("bucket") != matcher["bucket"]:
        return False
    att = failure.get("attribution") or {}
    if "pass" in matcher:
        passes = matcher["pass"] if isinstance(matcher["pass"], list) else [matcher["pass"]]
        if att.get("pass") not in passes:
            return False
    if "kinds" in matcher and failure.get("kind") not in matcher["kinds"]:
        return False
    if "detail_re" in matcher and not re.search(matcher["detail_re"], failure.get("detail", "")):
        return False
    if "trigger" in matcher:
        fun = TRIGGERS.get(matcher["trigger"])
        if fun is None or not fun(case, failure):
            return False
    return True
