"""Named, narrow trigger predicates identifying recorded findings (DESIGN.md section 5.4).

A matcher is a dict; every key present must hold:
  bucket  - crash bucket (exception type + innermost ngo frame)
  pass    - attributed pass application
  kinds   - list of failure kinds
  trigger - name of a predicate below, evaluated on the attributed pass application's
            input program (failure["attribution"]["before"]), the case and the instance
"""

import re
from typing import Callable

from clingo.ast import ASTType, ComparisonOperator, Sign

from . import astutil, oracle


def _prg(text: str) -> list:
    return oracle.try_parse(text) or []


def _before(case: dict, failure: dict) -> str:
    att = failure.get("attribution") or {}
    return att.get("before") or case.get("src", "")


def _after(case: dict, failure: dict) -> str:
    att = failure.get("attribution") or {}
    return att.get("after") or failure.get("result_text", "")


def _equalities(stm) -> list:
    """(variable, other side) for every literal that ngo's `_equality` reads as an assignment"""
    out = []
    for n in astutil.walk(stm):
        if n.ast_type == ASTType.Literal and n.sign == Sign.NoSign and n.atom.ast_type in (ASTType.BodyAggregate, ASTType.Aggregate):
            # V = #agg{...}: V depends on every variable inside the aggregate
            agg = n.atom
            for g in (agg.left_guard, agg.right_guard):
                if g is not None and g.comparison == ComparisonOperator.Equal and g.term.ast_type == ASTType.Variable:
                    out.append((g.term, agg.update(left_guard=None, right_guard=None)))
            continue
        if n.ast_type != ASTType.Literal or n.atom.ast_type != ASTType.Comparison:
            continue
        cmp_ = n.atom
        if len(cmp_.guards) != 1:
            continue
        op = cmp_.guards[0].comparison
        if not (
            (op == ComparisonOperator.Equal and n.sign == Sign.NoSign)
            or (op == ComparisonOperator.NotEqual and n.sign == Sign.Negation)
        ):
            continue
        out.append((cmp_.term, cmp_.guards[0].term))
    return out


def cyclic_equalities_in(text: str) -> bool:
    """some statement has equalities `V = t` whose variable dependencies are cyclic (X = t(X),
    or Y = C-2, C = Y+0); variable = variable equalities only merge names"""
    for stm in _prg(text):
        eqs = _equalities(stm)
        if not eqs:
            continue
        parent: dict = {}

        def find(x: str) -> str:
            while parent.get(x, x) != x:
                x = parent[x]
            return x

        for a, b in eqs:
            if a.ast_type == ASTType.Variable and b.ast_type == ASTType.Variable:
                parent[find(a.name)] = find(b.name)
        edges: dict = {}
        for a, b in eqs:
            for var, rest in ((a, b), (b, a)):
                if var.ast_type == ASTType.Variable and rest.ast_type != ASTType.Variable and var.name != "_":
                    edges.setdefault(find(var.name), set()).update(find(v) for v in astutil.variables_in(rest))
        for start in edges:
            seen: set = set()
            todo = list(edges[start])
            while todo:
                x = todo.pop()
                if x in seen:
                    continue
                seen.add(x)
                todo.extend(edges.get(x, ()))
            if start in seen:
                return True
    return False


def selfref_equality(case: dict, failure: dict) -> bool:
    """F-selfref: the attributed step's input (or the source) contains cyclic assignments"""
    return cyclic_equalities_in(_before(case, failure)) or cyclic_equalities_in(case.get("src", ""))


def negated_chain_in(text: str) -> bool:
    """a `not t1 op t2 op t3` literal (single negation, two or more guards)"""
    for stm in _prg(text):
        for n in astutil.walk(stm):
            if n.ast_type == ASTType.Literal and n.sign == Sign.Negation and n.atom.ast_type == ASTType.Comparison:
                if len(n.atom.guards) >= 2:
                    return True
    return False


def negated_chain(case: dict, failure: dict) -> bool:
    """F-negchain: the source contains a negated comparison chain"""
    return negated_chain_in(case.get("src", ""))


def _instance(failure: dict) -> str:
    return failure.get("instance") or ""


def minmax_empty_candidate_domain(case: dict, failure: dict) -> bool:
    """F-minmax-empty: the attributed minmax step emitted a chain translation and, in the failing instance,
    some generated candidate-domain predicate __dom___{min,max}_* has an empty extension"""
    after = _after(case, failure)
    prg = _prg(after)
    doms = {sig for sig in astutil.defined(prg) if re.match(r"^__dom___(min|max)_\d+_\d+", sig[0])}
    if not doms:
        return False
    res = oracle.solve(after, _instance(failure), case.get("consts") or {}, 50)
    if res.status not in ("ok", "toomany") or not res.models:
        # unsatisfiable after-program: judge emptiness on the domain rules alone (they are stratified and choice free)
        rules = "\n".join(str(s) for s in prg if s.ast_type == ASTType.Rule and {h for h, _ in astutil.positive_heads(s)} and all(h[0].startswith("__dom_") for h, _ in astutil.positive_heads(s)))
        res = oracle.solve(rules, _instance(failure), case.get("consts") or {}, 50)
        if res.status not in ("ok", "toomany") or not res.models:
            return False
    model = res.models[0]
    for dom in doms:
        if not any(a.name == dom[0] and len(a.arguments) == dom[1] for a in model.atoms):
            return True
    return False


def sum_chain_anonymous_group(case: dict, failure: dict) -> bool:
    """F-sum-anon: the attributed sum_chains step wrote the placeholder constant `none` for an anonymous group argument"""
    after, before = _after(case, failure), _before(case, failure)
    pat = re.compile(r"[(,]none[,)]")
    return bool(pat.search(after)) and not pat.search(before)


def duplication_global_in_condition(case: dict, failure: dict) -> bool:
    """F-dup-global: in the duplication step's input some statement has a conditional literal or aggregate element
    that uses a variable which is global in that statement (bound by a plain body literal)"""
    for stm in _prg(_before(case, failure)):
        if stm.ast_type not in (ASTType.Rule, ASTType.Minimize):
            continue
        plain_vars: set = set()
        for lit in stm.body:
            if lit.ast_type == ASTType.Literal and lit.atom.ast_type in (ASTType.SymbolicAtom, ASTType.Comparison):
                plain_vars.update(astutil.variables_in(lit))
        plain_vars.discard("_")
        for lit in stm.body:
            inner = None
            if lit.ast_type == ASTType.ConditionalLiteral:
                inner = lit
            elif lit.ast_type == ASTType.Literal and lit.atom.ast_type in (ASTType.BodyAggregate, ASTType.Aggregate):
                inner = lit.atom
            if inner is not None and set(astutil.variables_in(inner)) & plain_vars:
                return True
    return False


def math_drops_recursive_aggregate(case: dict, failure: dict) -> bool:
    """F-math-recursive: in the math step's input a rule's body aggregate mentions a predicate that depends on the rule's own head"""
    prg = _prg(_before(case, failure))
    edges: dict = {}
    for stm in prg:
        if stm.ast_type != ASTType.Rule:
            continue
        heads = set(astutil.atoms_in(stm.head))
        body: set = set()
        for b in stm.body:
            body.update(astutil.atoms_in(b))
        for h in heads:
            edges.setdefault(h, set()).update(body)

    def reaches(src: tuple, dst: set) -> bool:
        seen: set = set()
        todo = [src]
        while todo:
            x = todo.pop()
            if x in dst:
                return True
            if x in seen:
                continue
            seen.add(x)
            todo.extend(edges.get(x, ()))
        return False

    for stm in prg:
        if stm.ast_type != ASTType.Rule:
            continue
        heads = set(astutil.atoms_in(stm.head))
        for lit in stm.body:
            if lit.ast_type == ASTType.Literal and lit.atom.ast_type in (ASTType.BodyAggregate, ASTType.Aggregate):
                for q in set(astutil.atoms_in(lit)):
                    if q in heads or reaches(q, heads):
                        return True
    return False


def math_nonlinear_literal_changed(case: dict, failure: dict) -> bool:
    """F-math-rationals: a body literal that the math step removed or rewrote contains multiplication, division, modulo,
    power or absolute value of a variable (relations that are not always solvable over the integers)"""
    def lits(text: str) -> set:
        out = set()
        for stm in _prg(text):
            if stm.ast_type in (ASTType.Rule, ASTType.Minimize):
                out.update(str(b) for b in stm.body)
        return out

    before, after = lits(_before(case, failure)), lits(_after(case, failure))
    for gone in before - after:
        prg = _prg(f":- {gone}.")
        for stm in prg:
            if stm.ast_type != ASTType.Rule:
                continue
            for n in astutil.walk(stm):
                if n.ast_type == ASTType.BinaryOperation and int(n.operator_type) not in (3, 4) and astutil.variables_in(n):
                    return True  # anything but + and -
                if n.ast_type == ASTType.UnaryOperation and int(n.operator_type) == 2 and astutil.variables_in(n):
                    return True  # |X|
    return False


def math_symbolic_constant(case: dict, failure: dict) -> bool:
    """F-math-symbols: a body literal that the math step removed or rewrote compares a symbolic constant
    (not a #const name) - math treats every constant as an integer symbol"""
    consts = set(re.findall(r"#const\s+([a-z][A-Za-z0-9_]*)\s*=", case.get("src", "")))

    def lits(text: str) -> set:
        out = set()
        for stm in _prg(text):
            if stm.ast_type in (ASTType.Rule, ASTType.Minimize):
                out.update(str(b) for b in stm.body)
        return out

    before, after = lits(_before(case, failure)), lits(_after(case, failure))
    for gone in before - after:
        for stm in _prg(f":- {gone}."):
            if stm.ast_type != ASTType.Rule:
                continue
            for lit in stm.body:
                if lit.ast_type != ASTType.Literal or lit.atom.ast_type not in (ASTType.Comparison, ASTType.BodyAggregate):
                    continue
                terms = [lit.atom.term] + [g.term for g in lit.atom.guards] if lit.atom.ast_type == ASTType.Comparison else [g.term for g in (lit.atom.left_guard, lit.atom.right_guard) if g is not None]
                for t in terms:
                    for n in astutil.walk(t):
                        if n.ast_type == ASTType.Function and not n.arguments and n.name and n.name not in consts:
                            return True
                        if n.ast_type == ASTType.SymbolicTerm and n.symbol.type.name in ("Function", "String", "Infimum", "Supremum") and str(n.symbol) not in consts:
                            return True
    return False


def domain_rule_antimonotone(case: dict, failure: dict) -> bool:
    """F-dom-neg: some generated domain rule uses a domain predicate under negation or inside the condition
    of a conditional literal (then the 'domain' is no over-approximation)"""
    after = (failure.get("attribution") or {}).get("after") or ""
    for stm in _prg(after):
        if stm.ast_type != ASTType.Rule or not all(h[0].startswith("__dom_") for h, _ in astutil.positive_heads(stm)) or not astutil.positive_heads(stm):
            continue
        for lit in stm.body:
            if lit.ast_type == ASTType.ConditionalLiteral:
                inner = [c for c in lit.condition] + ([lit.literal] if lit.literal.sign != Sign.NoSign else [])
                if any(sig[0].startswith("__dom_") for c in inner for sig in astutil.atoms_in(c)):
                    return True
            elif lit.ast_type == ASTType.Literal and lit.sign != Sign.NoSign and lit.atom.ast_type == ASTType.SymbolicAtom:
                if any(sig[0].startswith("__dom_") for sig in astutil.atoms_in(lit)):
                    return True
    return False


def _body_lits(text: str) -> list:
    out = []
    for stm in _prg(text):
        if stm.ast_type in (ASTType.Rule, ASTType.Minimize):
            out.extend(stm.body)
    return out


def math_sumplus_negative_weight(case: dict, failure: dict) -> bool:
    """F-math-sumplus: the math step produced (not present before) a #sum+ aggregate with a negated / negatively scaled weight"""
    before = {str(b) for b in _body_lits(_before(case, failure))}
    for lit in _body_lits(_after(case, failure)):
        if str(lit) in before or lit.ast_type != ASTType.Literal or lit.atom.ast_type != ASTType.BodyAggregate:
            continue
        if int(lit.atom.function) != 2:  # SumPlus
            continue
        for el in lit.atom.elements:
            if not el.terms:
                continue
            for n in astutil.walk(el.terms[0]):
                if n.ast_type == ASTType.UnaryOperation and int(n.operator_type) == 0:
                    return True
                if n.ast_type == ASTType.SymbolicTerm and n.symbol.type.name == "Number" and n.symbol.number < 0:
                    return True
    return False


def _minmax_value_became_weight(case: dict, failure: dict) -> bool:
    """second shape of the same defect: after the math step a variable that a #min/#max aggregate assigns (guards may have been
    renamed: `Z = #min{..} = Y; Y = X` -> `X = #min{..}`) is the weight of an element of a #sum that did not exist before"""
    before = {str(b) for b in _body_lits(_before(case, failure))}
    lits = [l for l in _body_lits(_after(case, failure)) if l.ast_type == ASTType.Literal and l.atom.ast_type == ASTType.BodyAggregate]
    assigned = set()
    for lit in lits:
        if int(lit.atom.function) in (3, 4):
            for g in (lit.atom.left_guard, lit.atom.right_guard):
                if g is not None and int(g.comparison) == 5 and g.term.ast_type == ASTType.Variable:
                    assigned.add(g.term.name)
    for lit in lits:
        if str(lit) in before or int(lit.atom.function) not in (1, 2):
            continue
        for elem in lit.atom.elements:
            if elem.terms and set(astutil.variables_in(elem.terms[0])) & assigned:
                return True
    return False


def math_uses_minmax_result(case: dict, failure: dict) -> bool:
    """F-math-minmax: a variable assigned by a #min/#max aggregate (it may be #inf/#sup or a non-integer) occurs in a
    literal that the math step removed or rewrote, while the #min/#max aggregate itself is kept verbatim"""
    if _minmax_value_became_weight(case, failure):
        return True
    assigned = set()
    after = {str(b) for b in _body_lits(_after(case, failure))}
    for lit in _body_lits(_before(case, failure)):
        if lit.ast_type == ASTType.Literal and lit.atom.ast_type == ASTType.BodyAggregate and int(lit.atom.function) in (3, 4):
            if str(lit) not in after:
                return False  # the #min/#max aggregate itself was rewritten: that is a different defect
            for g in (lit.atom.left_guard, lit.atom.right_guard):
                if g is not None and g.term.ast_type == ASTType.Variable:
                    assigned.add(g.term.name)
    if not assigned:
        return False
    for lit in _body_lits(_before(case, failure)):
        if str(lit) not in after and set(astutil.variables_in(lit)) & assigned:
            return True
    return False


def math_noninteger_instance(case: dict, failure: dict) -> bool:
    """F-math-terms: the failing instance gives a non-integer value (constant, string, function term) to an input predicate
    and the math step rewrote a comparison or an aggregate guard (moving terms across a comparison is only defined for integers)"""
    inst = _instance(failure)
    if not inst:
        return False
    for fact in _prg(inst):
        if fact.ast_type != ASTType.Rule:
            continue
        for atom in astutil.head_atoms(fact):
            if atom.ast_type != ASTType.SymbolicAtom or atom.symbol.ast_type != ASTType.Function:
                continue
            for arg in atom.symbol.arguments:
                is_int = arg.ast_type == ASTType.SymbolicTerm and arg.symbol.type.name == "Number"
                is_neg = arg.ast_type == ASTType.UnaryOperation and arg.argument.ast_type == ASTType.SymbolicTerm and arg.argument.symbol.type.name == "Number"
                if not (is_int or is_neg):
                    pb, pa = _prg(_before(case, failure)), _prg(_after(case, failure))
                    if len(pb) == len(pa):  # math rewrites statement by statement: judge each statement on its own
                        for sb, sa in zip(pb, pa):
                            if sb.ast_type not in (ASTType.Rule, ASTType.Minimize) or str(sb) == str(sa):
                                continue
                            gone = {str(b) for b in sb.body if b.ast_type == ASTType.Literal and b.atom.ast_type in (ASTType.Comparison, ASTType.BodyAggregate)}
                            gone -= {str(b) for b in getattr(sa, "body", [])}
                            if gone:
                                return True
                        return False
                    before = {str(b) for b in _body_lits(_before(case, failure)) if b.ast_type == ASTType.Literal and b.atom.ast_type in (ASTType.Comparison, ASTType.BodyAggregate)}
                    after = {str(b) for b in _body_lits(_after(case, failure))}
                    return bool(before - after)
    return False


HARDWIRED_VARS = re.compile(r"^(__NEXT|__PREV|__VAR.*|__AUX_[0-9]+)$")


def variant_uses_hardwired_variable(case: dict, failure: dict) -> bool:
    """F-hardwired: a C07 renaming variant whose source uses a variable name that ngo inserts verbatim into rewritten rules"""
    if not str(failure.get("kind", "")).startswith("rename:"):
        return False
    for stm in _prg(failure.get("variant_src") or ""):
        for name in astutil.variables_in(stm):
            if HARDWIRED_VARS.match(name):
                return True
    return False


def symmetry_groups_of_different_size(case: dict, failure: dict) -> bool:
    """F-sym-bundle: some body (or aggregate condition) of the symmetry step's input joins two different predicates
    that each occur at least twice, a different number of times, and share variables"""
    from collections import Counter  # pylint: disable=import-outside-toplevel

    def check(lits: list) -> bool:
        atoms = [l for l in lits if l.ast_type == ASTType.Literal and l.sign == Sign.NoSign and l.atom.ast_type == ASTType.SymbolicAtom and l.atom.symbol.ast_type == ASTType.Function]
        cnt = Counter((l.atom.symbol.name, len(l.atom.symbol.arguments)) for l in atoms)
        multi = [p for p, n in cnt.items() if n >= 2]
        for i, p in enumerate(multi):
            for q in multi[i + 1 :]:
                if cnt[p] == cnt[q]:
                    continue
                vp = {v for l in atoms if (l.atom.symbol.name, len(l.atom.symbol.arguments)) == p for v in astutil.variables_in(l)}
                vq = {v for l in atoms if (l.atom.symbol.name, len(l.atom.symbol.arguments)) == q for v in astutil.variables_in(l)}
                if (vp & vq) - {"_"}:
                    return True
        return False

    for stm in _prg(_before(case, failure)):
        if stm.ast_type not in (ASTType.Rule, ASTType.Minimize):
            continue
        if check(list(stm.body)):
            return True
        for lit in stm.body:
            if lit.ast_type == ASTType.Literal and lit.atom.ast_type == ASTType.BodyAggregate:
                if any(check(list(e.condition)) for e in lit.atom.elements):
                    return True
    return False


def source_uses_hardwired_variable(case: dict, failure: dict) -> bool:
    """F-hardwired (C04 face): the source itself uses a variable name that ngo inserts verbatim into rewritten rules"""
    for stm in _prg(case.get("src", "")):
        for name in astutil.variables_in(stm):
            if HARDWIRED_VARS.match(name):
                return True
    return False


def equality_between_globals_in_aggregate(case: dict, failure: dict) -> bool:
    """F-agg-eq: some aggregate element of the symmetry step's input holds an equality X = Y between two variables that
    are both global in the statement"""
    for stm in _prg(_before(case, failure)):
        if stm.ast_type not in (ASTType.Rule, ASTType.Minimize):
            continue
        plain: set = set()
        for lit in stm.body:
            if lit.ast_type == ASTType.Literal and lit.atom.ast_type in (ASTType.SymbolicAtom, ASTType.Comparison):
                plain.update(astutil.variables_in(lit))
            elif lit.ast_type == ASTType.Literal and lit.atom.ast_type == ASTType.BodyAggregate:
                for g in (lit.atom.left_guard, lit.atom.right_guard):
                    if g is not None:
                        plain.update(astutil.variables_in(g))
        if stm.ast_type == ASTType.Rule:
            plain.update(astutil.variables_in(stm.head))
        for lit in stm.body:
            if lit.ast_type != ASTType.Literal or lit.atom.ast_type != ASTType.BodyAggregate:
                continue
            for el in lit.atom.elements:
                for a, b in _equalities(stm.update(body=list(el.condition)) if stm.ast_type == ASTType.Rule else stm.update(body=list(el.condition))):
                    if getattr(a, "ast_type", None) == ASTType.Variable and getattr(b, "ast_type", None) == ASTType.Variable:
                        if a.name in plain and b.name in plain and a.name != b.name:
                            return True
    return False


def aggregate_uses_own_result(case: dict, failure: dict) -> bool:
    """F-agg-self: an aggregate of the math step's input is assigned to a variable that occurs inside its own elements"""
    for lit in _body_lits(_before(case, failure)):
        if lit.ast_type == ASTType.Literal and lit.atom.ast_type == ASTType.BodyAggregate:
            inner = set()
            for el in lit.atom.elements:
                inner.update(astutil.variables_in(el))
            for g in (lit.atom.left_guard, lit.atom.right_guard):
                if g is not None and g.term.ast_type == ASTType.Variable and g.term.name in inner:
                    return True
    return False


def negated_minmax_unfolded_in_recursive_rule(case: dict, failure: dict) -> bool:
    """F20: the minmax step replaced a NEGATED `not t > #max{..}` / `not t < #min{..}` by its element condition written positively
    (`cond; not t > w`), and a predicate of that condition depends on a head predicate of the same statement: the dependency
    through `not` has become a positive loop"""
    before, after = _prg(_before(case, failure)), _prg(_after(case, failure))
    after_lits = {str(b) for b in _body_lits(_after(case, failure))}
    deps: dict = {}
    for stm in before:
        if stm.ast_type != ASTType.Rule:
            continue
        body = set()
        for b in stm.body:
            body.update(astutil.atoms_in(b))
        for h in astutil.head_atoms(stm):
            for sig in astutil.atoms_in(h):
                deps.setdefault(sig, set()).update(body)
                deps[sig].update(x for hh in astutil.head_atoms(stm) for x in astutil.atoms_in(hh) if False)
    def reach(start: set) -> set:
        seen, todo = set(start), list(start)
        while todo:
            for nxt in deps.get(todo.pop(), ()):
                if nxt not in seen:
                    seen.add(nxt)
                    todo.append(nxt)
        return seen
    for stm in before:
        if stm.ast_type != ASTType.Rule:
            continue
        heads = {sig for h in astutil.head_atoms(stm) for sig in astutil.atoms_in(h)}
        for lit in stm.body:
            if lit.ast_type != ASTType.Literal or lit.atom.ast_type != ASTType.BodyAggregate or int(lit.atom.function) not in (3, 4):
                continue
            if int(lit.sign) != 1 or str(lit) in after_lits:
                continue
            inner = set()
            for el in lit.atom.elements:
                for c in el.condition:
                    inner.update(astutil.atoms_in(c))
            if reach(inner) & heads:
                return True
    return False


def out_only_aux_collision(case: dict, failure: dict) -> bool:
    """F-outdecl (semantic face): OUT declares a predicate that does not occur in the source and the result defines exactly that predicate"""
    if case.get("OUT") in (None, "auto"):
        return False
    voc = astutil.vocabulary(_prg(case.get("src", "")))
    declared = {tuple(x) for x in case["OUT"]} - voc
    if not declared:
        return False
    res_text = failure.get("result_text") or _after(case, failure)
    for att in (failure.get("attribution") or {}).get("after", ""), res_text:
        if declared & astutil.defined(_prg(att)):
            return True
    return False


def input_also_defined_domain(case: dict, failure: dict) -> bool:
    """F-dom-input: a predicate that is declared as input AND defined by rules got a generated domain predicate __dom_<p>
    (instance facts of p are then missing from the domain)"""
    if case.get("IN") in (None, "auto"):
        return False
    after = (failure.get("attribution") or {}).get("after") or ""
    prg_after = _prg(after)
    src_def = astutil.defined(_prg(case.get("src", "")))
    for name, arity in {tuple(x) for x in case["IN"]} & src_def:
        if (f"__dom_{name}", arity) in astutil.defined(prg_after):
            return True
    return False


def classical_negation(case: dict, failure: dict) -> bool:
    """F-classical: the source contains a classically negated atom `-p(..)`"""
    for stm in _prg(case.get("src", "")):
        for n in astutil.walk(stm):
            if n.ast_type == ASTType.SymbolicAtom and n.symbol.ast_type == ASTType.UnaryOperation:
                return True
    return False


def aux_collides_with_out_only_declaration(case: dict, failure: dict) -> bool:
    """F-outdecl: every clashing predicate is declared as output only and does not occur in the source"""
    import ast as pyast  # pylint: disable=import-outside-toplevel

    try:
        clash = {tuple(x) for x in pyast.literal_eval(failure.get("detail", "[]"))}
    except (ValueError, SyntaxError):
        return False
    ins = {tuple(x) for x in case.get("IN", [])} if case.get("IN") != "auto" else set()
    voc = astutil.vocabulary(_prg(case.get("src", "")))
    return bool(clash) and not (clash & ins) and not (clash & voc)


TRIGGERS: dict[str, Callable[[dict, dict], bool]] = {
    "aux_collides_with_out_only_declaration": aux_collides_with_out_only_declaration,
    "classical_negation": classical_negation,
    "minmax_empty_candidate_domain": minmax_empty_candidate_domain,
    "sum_chain_anonymous_group": sum_chain_anonymous_group,
    "duplication_global_in_condition": duplication_global_in_condition,
    "math_drops_recursive_aggregate": math_drops_recursive_aggregate,
    "math_nonlinear_literal_changed": math_nonlinear_literal_changed,
    "out_only_aux_collision": out_only_aux_collision,
    "math_symbolic_constant": math_symbolic_constant,
    "domain_rule_antimonotone": domain_rule_antimonotone,
    "math_sumplus_negative_weight": math_sumplus_negative_weight,
    "equality_between_globals_in_aggregate": equality_between_globals_in_aggregate,
    "aggregate_uses_own_result": aggregate_uses_own_result,
    "negated_minmax_unfolded_in_recursive_rule": negated_minmax_unfolded_in_recursive_rule,
    "variant_uses_hardwired_variable": variant_uses_hardwired_variable,
    "source_uses_hardwired_variable": source_uses_hardwired_variable,
    "symmetry_groups_of_different_size": symmetry_groups_of_different_size,
    "math_uses_minmax_result": math_uses_minmax_result,
    "math_noninteger_instance": math_noninteger_instance,
    "input_also_defined_domain": input_also_defined_domain,
    "selfref_equality": selfref_equality,
    "negated_chain": negated_chain,
}


def matches(matcher: dict, case: dict, failure: dict) -> bool:
    """does the failure fall under the matcher (a dict, or {"any": [dict, ...]})"""
    if not matcher:
        return False
    if "any" in matcher:
        return any(matches(m, case, failure) for m in matcher["any"])
    if "bucket" in matcher and failure.get("bucket") != matcher["bucket"]:
        return False
    att = failure.get("attribution") or {}
    if "pass" in matcher:
        passes = matcher["pass"] if isinstance(matcher["pass"], list) else [matcher["pass"]]
        if att.get("pass") not in passes:
            return False
    if "kinds" in matcher and failure.get("kind") not in matcher["kinds"]:
        return False
    if "detail_re" in matcher and not re.search(matcher["detail_re"], failure.get("detail", "")):
        return False
    if "trigger" in matcher:
        fun = TRIGGERS.get(matcher["trigger"])
        if fun is None or not fun(case, failure):
            return False
    return True
