"""Sharded runner: findings replay -> corpus sweep -> generated search -> shrink -> evidence.

Exit status: 0 property held on everything explored (KNOWN-FINDING lines allowed),
1 with `VIOLATION property=<id> replay=<path>`, 2 harness error (never prints VIOLATION).
"""

import argparse
import glob
import hashlib
import importlib
import json
import os
import resource
import subprocess
import sys
import time
import traceback
from collections import Counter
from typing import Any, Optional

from . import env

NSHARDS = 16
MAX_FAILS_PER_SHARD = 12


class StopRun(BaseException):
    """soft deadline reached inside a Hypothesis run"""


def derive_seed(seed: int, *parts: Any) -> int:
    """stable sub-seed"""
    blob = json.dumps([seed, *parts]).encode()
    return int(hashlib.sha1(blob).hexdigest()[:12], 16)


def plain_generation() -> None:
    """Switch off Hypothesis' span mutator (it re-runs each example a few times with one drawn value copied over
    another draw of the same label).  Our generators encode categorical choices as small integers, so the mutator
    skews exactly those choices towards values drawn elsewhere in the example and spends 5 of 6 executions on
    near-duplicates; measured on the symmetry template: 28 instead of 6 of 400 programs had the rare shape
    'outer literal next to the aggregate'.  Every example is then an independent draw from the strategy."""
    try:
        from hypothesis.internal.conjecture import engine  # pylint: disable=import-outside-toplevel

        engine.ConjectureRunner.generate_mutations_from = lambda self, data: None  # type: ignore
    except Exception:  # pylint: disable=broad-except
        pass


def load_prop(pid: str) -> Any:
    """import ngoverif.props.<pid>"""
    return importlib.import_module(f"ngoverif.props.{pid.lower()}")


class Stats:
    """what a shard (or the merged run) saw"""

    def __init__(self) -> None:
        self.evaluations = 0
        self.comparisons = 0
        self.status: Counter = Counter()
        self.discards: Counter = Counter()
        self.inst_discards: Counter = Counter()
        self.labels: Counter = Counter()
        self.origins: Counter = Counter()
        self.nontrivial: set = set()
        self.samples: list = []
        self.failures: list = []
        self.known_hits: Counter = Counter()
        self.truncated = False
        self.stage_counts: Counter = Counter()
        self.extra: dict = {}

    def to_json(self) -> dict:
        """serialise"""
        return {
            "evaluations": self.evaluations,
            "comparisons": self.comparisons,
            "status": dict(self.status),
            "discards": dict(self.discards),
            "inst_discards": dict(self.inst_discards),
            "labels": dict(self.labels),
            "origins": dict(self.origins),
            "nontrivial": sorted(self.nontrivial),
            "samples": self.samples,
            "failures": self.failures,
            "known_hits": dict(self.known_hits),
            "truncated": self.truncated,
            "stage_counts": dict(self.stage_counts),
            "extra": self.extra,
        }

    def merge(self, d: dict) -> None:
        """add a serialised shard"""
        self.evaluations += d["evaluations"]
        self.comparisons += d["comparisons"]
        for k in ("status", "discards", "inst_discards", "labels", "origins", "known_hits", "stage_counts"):
            getattr(self, k).update(d[k])
        self.nontrivial.update(d["nontrivial"])
        self.samples.extend(d["samples"])
        self.failures.extend(d["failures"])
        self.truncated = self.truncated or d["truncated"]
        for k, v in d.get("extra", {}).items():
            if isinstance(v, (int, float)):
                self.extra[k] = self.extra.get(k, 0) + v
            elif isinstance(v, list):
                self.extra.setdefault(k, []).extend(v)
            elif isinstance(v, dict):
                cur = self.extra.setdefault(k, {})
                for kk, vv in v.items():
                    cur[kk] = cur.get(kk, 0) + vv if isinstance(vv, (int, float)) else vv


def handle(mod: Any, pid: str, case: Any, tier: str, stats: Stats, stage: str) -> None:
    """evaluate one case and book-keep"""
    from . import findings  # pylint: disable=import-outside-toplevel

    t_case = time.time()
    out = mod.evaluate(case, tier)
    dt = time.time() - t_case
    if dt > 10.0:
        slow = stats.extra.setdefault("slow_cases", [])
        if len(slow) < 5:
            slow.append({"seconds": round(dt, 1), "case": case.to_json() if hasattr(case, "to_json") else str(case)})
        stats.extra["slow_case_count"] = stats.extra.get("slow_case_count", 0) + 1
    stats.evaluations += 1
    stats.stage_counts[stage] += 1
    stats.comparisons += getattr(out, "comparisons", 0)
    stats.extra["nontrivial_instance_comparisons"] = stats.extra.get("nontrivial_instance_comparisons", 0) + getattr(out, "nontrivial_instances", 0)
    stats.status[out.status] += 1
    stats.origins[getattr(case, "origin", "?").split(":")[0]] += 1
    if out.status == "discard":
        stats.discards[out.reason] += 1
    for r in getattr(out, "discards", []):
        stats.inst_discards[r] += 1
    for lab in set(out.labels):
        stats.labels[lab] += 1
    if out.nontrivial:
        before = len(stats.nontrivial)
        stats.nontrivial.update(out.nontrivial)
        if len(stats.nontrivial) > before and len(stats.samples) < 3 and stage != "findings":
            stats.samples.append(mod.sample(case, out))
    for fid in getattr(out, "known", []):
        stats.known_hits[fid] += 1
    if out.status == "fail":
        cj = case.to_json()
        fid = findings.match(pid, cj, out.failure)
        if fid:
            stats.known_hits[fid] += 1
        elif len(stats.failures) < MAX_FAILS_PER_SHARD:
            stats.failures.append({"case": cj, "failure": out.failure, "stage": stage})


CASE_LIMIT = float(os.environ.get("NGOVERIF_CASE_LIMIT", "150"))  # seconds one case may take before the shard gives it up (clingo can hang uninterruptibly inside a C call)
HUNG_EXIT = 17


def worker(pid: str, tier: str, seed: int, shard: int, nshards: int, outpath: str, soft_s: float, resume: Optional[dict] = None) -> None:
    """one shard: corpus sweep + generated search.  `resume` (written by a previous incarnation of this shard that gave up a
    hung case) = {"attempt": k, "corpus_next": index of the next corpus entry or None, "generated_left": examples left}"""
    env.setup()
    import faulthandler  # pylint: disable=import-outside-toplevel
    import signal  # pylint: disable=import-outside-toplevel

    faulthandler.register(signal.SIGUSR1, all_threads=True)
    try:
        resource.setrlimit(resource.RLIMIT_AS, (6 * 1024**3, 6 * 1024**3))
    except (ValueError, OSError):
        pass
    from hypothesis import HealthCheck, Phase, given, settings  # pylint: disable=import-outside-toplevel
    from hypothesis import seed as hseed  # pylint: disable=import-outside-toplevel
    from hypothesis import strategies as st  # pylint: disable=import-outside-toplevel

    plain_generation()
    mod = load_prop(pid)
    stats = Stats()
    t0 = time.time()
    hb = outpath + ".hb"

    progress: dict = {"t": None, "case": None, "corpus_i": None, "gen_left": 0, "stage": ""}
    attempt = int((resume or {}).get("attempt", 0))

    def beat(case: Any) -> None:
        progress["t"], progress["case"] = time.time(), case
        with open(hb, "w", encoding="utf8") as fh:
            json.dump(case.to_json() if hasattr(case, "to_json") else str(case), fh)

    def monitor() -> None:
        # the main thread may sit in an uninterruptible C call of clingo (seen: minutes inside Control.solve before the
        # first model); give the case up, hand the partial result to the parent and let it restart this shard
        while True:
            time.sleep(2.0)
            t_case = progress["t"]
            if t_case is None or time.time() - t_case < CASE_LIMIT:
                continue
            case = progress["case"]
            data = stats.to_json()
            data["hung_case"] = case.to_json() if hasattr(case, "to_json") else str(case)
            in_corpus = progress["stage"] == "corpus"
            data["resume"] = {
                "depth": int((resume or {}).get("depth", 0)) + 1,
                "corpus_next": (progress["corpus_i"] + 1) if in_corpus else None,
                "generated_left": (mod.budget(tier) // nshards) if in_corpus else max(0, progress["gen_left"]),
                "extra_done": progress["stage"] == "extra",
            }
            with open(outpath, "w", encoding="utf8") as fh:
                json.dump(data, fh)
            os._exit(HUNG_EXIT)

    import threading  # pylint: disable=import-outside-toplevel

    threading.Thread(target=monitor, daemon=True).start()

    def run_stage(stage: str, strategy: Any, n: int, sseed: int, skip_first: bool = False) -> None:
        if n <= 0:
            return
        seen = {"k": 0}

        @hseed(sseed)
        @settings(
            max_examples=n,
            database=None,
            deadline=None,
            derandomize=False,
            report_multiple_bugs=False,
            phases=[Phase.generate],
            suppress_health_check=list(HealthCheck),
        )
        @given(strategy)
        def test(case: Any) -> None:
            if time.time() - t0 > soft_s:
                raise StopRun()
            seen["k"] += 1
            if skip_first and seen["k"] == 1:
                return  # Hypothesis' first example is the all-simplest one (empty instances)
            progress["stage"] = stage
            if stage == "generated":
                progress["gen_left"] = n - seen["k"]
            beat(case)
            handle(mod, pid, case, tier, stats, stage)
            progress["t"] = None

        try:
            test()
        except StopRun:
            stats.truncated = True

    # stage 2: corpus sweep - one Hypothesis run per entry, so the sweep is complete and every
    # choice (instances, declarations) is still a Hypothesis draw
    corpus_from = 0 if resume is None else (10**9 if resume.get("corpus_next") is None else int(resume["corpus_next"]))
    for i, item in enumerate(mod.corpus_items(tier)):
        if i % nshards != shard or stats.truncated or i < corpus_from:
            continue
        progress["corpus_i"] = i
        run_stage("corpus", mod.corpus_strategy(item, tier), 2, derive_seed(seed, pid, "corpus", i), skip_first=True)
    # stage 3: generated search
    n = mod.budget(tier) // nshards if resume is None else int(resume.get("generated_left", 0))
    gen_seed = derive_seed(seed, pid, shard, "generated") if attempt == 0 else derive_seed(seed, pid, shard, "generated", attempt)
    run_stage("generated", mod.strategy(tier), n, gen_seed)
    progress["stage"], progress["t"] = "extra", None
    if hasattr(mod, "shard_extra") and not stats.truncated and not (resume or {}).get("extra_done"):
        res = mod.shard_extra(tier, seed, shard, nshards)
        stats.failures.extend(res.pop("failures", []))
        extra_evals = int(res.pop("evaluations", 0))
        stats.evaluations += extra_evals
        stats.stage_counts["extra"] += extra_evals
        for k, v in res.items():
            stats.extra[k] = stats.extra.get(k, 0) + v if isinstance(v, (int, float)) else v
    with open(outpath, "w", encoding="utf8") as fh:
        json.dump(stats.to_json(), fh)


def failure_signature(rec: dict) -> str:
    """group failures by root-cause guess: kind class + attributed pass / crash bucket"""
    f = rec["failure"]
    att = (f.get("attribution") or {}).get("pass", "")
    return f"{f.get('bucket') or f.get('kind')}|{att}"


def write_replay(pid: str, rec: dict, idx: int) -> str:
    """store a replay file, return its path"""
    os.makedirs(os.path.join(env.VERIF, "replays"), exist_ok=True)
    path = os.path.join(env.VERIF, "replays", f"{pid}_{idx}_{hashlib.sha1(json.dumps(rec['case'], sort_keys=True).encode()).hexdigest()[:10]}.json")
    with open(path, "w", encoding="utf8") as fh:
        json.dump({"property": pid, "case": rec["case"], "failure": rec["failure"], "replay_cmd": f"./check {pid} --replay {path}"}, fh, indent=1, default=str)
    return path


def run_check(pid: str, tier: str, seed: int) -> int:
    """parent: orchestrate the three stages and write the evidence"""
    env.setup()
    from . import findings  # pylint: disable=import-outside-toplevel
    from .core import Case  # pylint: disable=import-outside-toplevel
    from .shrink import shrink  # pylint: disable=import-outside-toplevel

    t0 = time.time()
    mod = load_prop(pid)
    if hasattr(mod, "custom_main"):
        return mod.custom_main(tier, seed)
    total = Stats()
    lines: list[str] = []
    violations: list[dict] = []
    # ---- stage 1: findings replay + regressions
    for f in findings.open_for(pid):
        case = Case.from_json(f["minimal_case"])
        out = mod.evaluate(case, tier)
        total.evaluations += 1
        total.stage_counts["findings"] += 1
        if out.status == "fail" or f["id"] in getattr(out, "known", []):
            lines.append(findings.line(f, pid))
            total.known_hits[f["id"]] += 1
        else:
            total.extra.setdefault("findings_not_reproduced", []).append(f["id"])
    regs = []
    for f in findings.fixed_for(pid):
        if "minimal_case" in f:
            regs.append((f["id"], f["minimal_case"]))
    for path in sorted(glob.glob(os.path.join(env.VERIF, "regressions", pid, "*.json"))):
        with open(path, encoding="utf8") as fh:
            regs.append((os.path.basename(path), json.load(fh)["case"]))
    for name, cj in regs:
        case = Case.from_json(cj)
        out = mod.evaluate(case, tier)
        total.evaluations += 1
        total.stage_counts["regressions"] += 1
        if out.nontrivial:
            total.nontrivial.update(out.nontrivial)
        if out.status == "fail" and not findings.match(pid, cj, out.failure):
            violations.append({"case": cj, "failure": out.failure, "stage": "regression:" + name})
    # ---- stages 2+3 in shards
    work = os.path.join(env.VERIF, ".work", f"{pid}_{tier}_{seed}_{os.getpid()}")
    os.makedirs(work, exist_ok=True)
    soft = mod.time_budget(tier) if hasattr(mod, "time_budget") else (420.0 if tier == "quick" else 3600.0)
    procs = []

    def start(shard: int, resume: Optional[dict]) -> None:
        attempt = int((resume or {}).get("attempt", 0))
        outpath = os.path.join(work, f"shard{shard}.json" if not attempt else f"shard{shard}_r{attempt}.json")
        left = max(30.0, soft - (time.time() - t0))
        cmd = [sys.executable, "-m", "ngoverif.runner", "--worker", pid, tier, str(seed), str(shard), str(NSHARDS), outpath, str(left if attempt else soft)]
        if resume:
            cmd.append(json.dumps(resume))
        procs.append((shard, outpath, subprocess.Popen(cmd, env=env.child_env("0"), cwd=env.VERIF, stdout=subprocess.DEVNULL, stderr=subprocess.PIPE)))

    for shard in range(NSHARDS):
        start(shard, None)
    restarts = [0]
    hard = soft + 180.0
    harness_errors = []
    hung = []
    given_up = []
    idx = 0
    while idx < len(procs):
        shard, outpath, proc = procs[idx]
        idx += 1
        try:
            _, err = proc.communicate(timeout=max(5.0, hard - (time.time() - t0)))
        except subprocess.TimeoutExpired:
            proc.kill()
            _, err = proc.communicate()
            last = None
            try:
                with open(outpath + ".hb", encoding="utf8") as fh:
                    last = json.load(fh)
            except Exception:  # pylint: disable=broad-except
                pass
            hung.append({"shard": shard, "last_case": last})
            continue
        if proc.returncode == HUNG_EXIT and os.path.exists(outpath):
            # the shard gave up one case after CASE_LIMIT seconds: inconclusive for that case, the rest of its budget is
            # run by a fresh process (other derived seed for the generated stage)
            with open(outpath, encoding="utf8") as fh:
                part = json.load(fh)
            total.merge(part)
            given_up.append({"shard": shard, "case": part.get("hung_case")})
            res = part["resume"]
            if int(res["depth"]) <= 4 and time.time() - t0 < soft:
                # the other shards are finishing: spread what is left over four processes
                left = int(res.get("generated_left", 0))
                parts = 4 if left >= 400 else 1
                for j in range(parts):
                    restarts[0] += 1
                    sub = dict(res, attempt=restarts[0], generated_left=left // parts + (left % parts if j == 0 else 0))
                    if j > 0:
                        sub["corpus_next"], sub["extra_done"] = None, True
                    start(shard, sub)
            continue
        if proc.returncode != 0 or not os.path.exists(outpath):
            harness_errors.append(f"shard {shard} exit {proc.returncode}: {err.decode(errors='replace')[-1500:]}")
            continue
        with open(outpath, encoding="utf8") as fh:
            total.merge(json.load(fh))
    for p in glob.glob(os.path.join(work, "*")):
        os.remove(p)
    os.rmdir(work)
    if harness_errors:
        print("HARNESS-ERROR " + " || ".join(harness_errors)[:4000])
        return 2
    violations.extend(total.failures)
    # ---- shrink one representative per signature
    by_sig: dict[str, dict] = {}
    for rec in violations:
        by_sig.setdefault(failure_signature(rec), rec)
    reported = []
    for idx, (sig, rec) in enumerate(sorted(by_sig.items())[:6]):
        case = Case.from_json(rec["case"])

        def still(c: Any, sig: str = sig) -> bool:
            o = mod.evaluate(c, tier)
            if o.status != "fail":
                return False
            if findings.match(pid, c.to_json(), o.failure):
                return False
            return failure_signature({"failure": o.failure}) == sig

        try:
            small = shrink(case, still, 45.0 if tier == "quick" else 180.0)
            o = mod.evaluate(small, tier)
            if o.status == "fail":
                rec = {"case": small.to_json(), "failure": o.failure, "stage": rec.get("stage")}
        except Exception:  # pylint: disable=broad-except
            traceback.print_exc()
        path = write_replay(pid, rec, idx)
        reported.append((sig, path, rec))
    # ---- evidence
    wall = time.time() - t0
    samples = total.samples[:5]
    if not samples:
        samples = [{"note": "no non-trivial case in this run"}]
    rejected = total.discards.get("source_rejected", 0) + total.discards.get("source_syntax", 0)
    gen_count = max(1, total.stage_counts.get("generated", 0))
    coverage = {
        "evaluations": total.evaluations,
        "distinct_nontrivial": len(total.nontrivial),
        "rule": mod.RULE,
        "samples": samples,
        "instance_comparisons": total.comparisons,
        "status": dict(total.status),
        "discards": dict(total.discards),
        "instance_discards": dict(total.inst_discards),
        "labels": dict(sorted(total.labels.items())),
        "origins": dict(total.origins),
        "stage_counts": dict(total.stage_counts),
        "known_hits": dict(total.known_hits),
        "inconclusive_hung_shards": hung,
        "inconclusive_cases_given_up": given_up[:5],
        "inconclusive_cases_given_up_count": len(given_up),
        "truncated_by_time_budget": total.truncated,
        "shards": NSHARDS,
        "source_rejection_rate": round(rejected / max(1, total.evaluations), 4),
        "new_violation_signatures": [s for s, _, _ in reported],
        "extra": total.extra,
    }
    evidence = {
        "property_id": pid,
        "tier": tier,
        "seed": seed,
        "level": getattr(mod, "LEVEL", "exploration"),
        "coverage": coverage,
        "assumptions": mod.ASSUMPTIONS,
        "wall_s": round(wall, 2),
        "violations": len(reported),
    }
    os.makedirs(os.path.join(env.VERIF, "evidence"), exist_ok=True)
    with open(os.path.join(env.VERIF, "evidence", f"{pid}.json"), "w", encoding="utf8") as fh:
        json.dump(evidence, fh, indent=1, default=str)
    for ln in lines:
        print(ln)
    print(
        f"{pid} {tier} seed={seed}: {total.evaluations} cases, {total.comparisons} instance comparisons, "
        f"{len(total.nontrivial)} distinct non-trivial, discards={dict(total.discards)}, known_hits={dict(total.known_hits)}, "
        f"hung_shards={len(hung)}, given_up={len(given_up)}, wall={wall:.0f}s"
    )
    if rejected / max(1, total.evaluations) > 0.35 and gen_count > 50:
        print(f"HARNESS-ERROR generator health: {rejected}/{total.evaluations} sources rejected by clingo")
        return 2
    if reported:
        for sig, path, rec in reported:
            f = rec["failure"]
            print(f"VIOLATION property={pid} replay={path}")
            print(f"  signature={sig} kind={f.get('kind')} detail={str(f.get('detail'))[:300]}")
        return 1
    return 0


def run_replay(pid: str, path: str, tier: str) -> int:
    """re-run a stored case, bypassing Hypothesis"""
    env.setup()
    from .core import Case  # pylint: disable=import-outside-toplevel

    mod = load_prop(pid)
    with open(path, encoding="utf8") as fh:
        data = json.load(fh)
    if hasattr(mod, "replay"):
        return mod.replay(data, tier)
    case = Case.from_json(data["case"])
    out = mod.evaluate(case, tier)
    print(f"replay {path}: status={out.status} reason={out.reason}")
    if out.status == "fail":
        from . import findings  # pylint: disable=import-outside-toplevel

        print(json.dumps(out.failure, indent=1, default=str)[:3000])
        fid = findings.match(pid, case.to_json(), out.failure)
        if fid:
            known = [f for f in findings.open_for(pid) if f["id"] == fid][0]
            print(findings.line(known, pid))
            return 0
        print(f"VIOLATION property={pid} replay={path}")
        return 1
    for fid in sorted(set(getattr(out, "known", []))):
        from . import findings  # pylint: disable=import-outside-toplevel

        print(findings.line([f for f in findings.open_for(pid) if f["id"] == fid][0], pid))
    return 0


def main(argv: Optional[list[str]] = None) -> int:
    """command line"""
    argv = list(sys.argv[1:] if argv is None else argv)
    if argv and argv[0] == "--worker":
        _, pid, tier, seed, shard, nshards, outpath, soft = argv[:8]
        worker(pid, tier, int(seed), int(shard), int(nshards), outpath, float(soft), json.loads(argv[8]) if len(argv) > 8 else None)
        return 0
    ap = argparse.ArgumentParser()
    ap.add_argument("pid")
    ap.add_argument("--tier", default=os.environ.get("VERIF_TIER", "quick"), choices=["quick", "thorough"])
    ap.add_argument("--seed", type=int, default=int(os.environ.get("VERIF_SEED", "1") or "1"))
    ap.add_argument("--replay")
    args = ap.parse_args(argv)
    try:
        if args.replay:
            return run_replay(args.pid.upper(), args.replay, args.tier)
        return run_check(args.pid.upper(), args.tier, args.seed)
    except env.HarnessError as exc:
        print(f"HARNESS-ERROR {exc}")
        return 2
    except Exception:  # pylint: disable=broad-except
        traceback.print_exc()
        print("HARNESS-ERROR unexpected exception in the runner")
        return 2


if __name__ == "__main__":
    sys.exit(main())
