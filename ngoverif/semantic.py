"""The differential (translation validation) engine shared by the semantic properties."""

from dataclasses import dataclass, field
from typing import Optional

from . import astutil, findings, oracle
from .core import Case, OptOutcome, case_hash, make_preds, run_optimize, sigs_of
from .trace import PASS_CLASSES

Sig = tuple[str, int]


@dataclass
class SemSpec:
    """how a property reads the oracle"""

    pid: str
    proj: str  # out | voc | inout | vocfacts
    costs: bool = True
    bijection: bool = False
    rejected_is_violation: bool = False
    focus: Optional[str] = None  # pass whose firing makes a case non-trivial (None: any pass)
    need_cost: bool = False  # non-trivial only when some answer set has a non-zero cost
    need_aux: bool = False  # non-trivial only when an auxiliary predicate was introduced
    min_models: int = 1


@dataclass
class Outcome:
    """what one case contributed"""

    status: str = "pass"  # pass | discard | fail
    reason: str = ""
    labels: list = field(default_factory=list)
    nontrivial: list = field(default_factory=list)
    comparisons: int = 0
    nontrivial_instances: int = 0
    discards: list = field(default_factory=list)  # per-instance discard reasons
    failure: Optional[dict] = None
    known: list = field(default_factory=list)  # ids of open findings hit on some instance (evaluation continued)
    opt: Optional[OptOutcome] = None
    result_text: str = ""


def projection_sigs(spec: SemSpec, case: Case, src_prg: list, in_sigs: set[Sig], out_sigs: set[Sig]) -> tuple[Optional[set[Sig]], bool]:
    """(signatures to compare, compare shown symbols too)"""
    if spec.proj == "voc":
        return astutil.vocabulary(src_prg) | in_sigs, False
    if spec.proj == "vocfacts":
        extra = {tuple(s) for s in case.extra.get("fact_sigs", [])}
        return astutil.vocabulary(src_prg) | extra, False
    shown = case.OUT == "auto" and astutil.has_show(src_prg)
    if spec.proj == "out":
        return set(out_sigs), shown
    if spec.proj == "inout":
        return set(out_sigs) | set(in_sigs), shown
    raise ValueError(spec.proj)


def attribute(
    opt: OptOutcome, instance: str, consts: dict, io_sigs: set[Sig], costs: bool, bijection: bool, limit: int
) -> dict:
    """find the first pass application whose output is not equivalent to its input on this instance"""
    for idx, step in enumerate(opt.trace.steps):
        if not step.fired:
            continue
        bprg = oracle.try_parse(step.before)
        if bprg is None:
            continue
        a = oracle.solve(step.before, instance, consts, limit)
        if a.status != "ok":
            continue
        b = oracle.solve(step.after, instance, consts, 4 * limit)
        if step.name in ("unused", "inline"):
            sigs: Optional[set[Sig]] = set(io_sigs)
            bij = False
        else:
            sigs = astutil.vocabulary(bprg)
            bij = bijection
        if b.status == "error":
            return {"step": idx, "pass": step.name, "iteration": step.iteration, "before": step.before, "after": step.after, "how": "rejected: " + b.error_text()}
        if b.status != "ok":
            continue
        diff = oracle.compare(a, b, sigs, False, costs, bij)
        if diff is not None:
            return {"step": idx, "pass": step.name, "iteration": step.iteration, "before": step.before, "after": step.after, "how": diff.kind}
    return {"step": -1, "pass": "unattributed", "iteration": -1, "before": "", "after": "", "how": ""}


def evaluate(case: Case, spec: SemSpec, tier: str = "quick", opt_timeout: float = 30.0, prg_hook: Optional[object] = None) -> Outcome:
    """run one case through ngo and the oracle; prg_hook (optional) transforms the parsed program handed to optimize"""
    out = Outcome()
    limit = oracle.LIMITS[tier]
    prg = oracle.try_parse(case.src)
    if prg is None:
        out.status, out.reason = "discard", "source_syntax"
        return out
    if astutil.may_ground_infinitely(prg):
        out.status, out.reason = "discard", "source_possibly_infinite"
        return out
    if astutil.gringo_scope_quirk(prg):
        out.status, out.reason = "discard", "gringo_scope_quirk"
        return out
    g = oracle.grounds(case.src, "", case.consts)
    if g.status != "ok":
        out.status, out.reason = "discard", "source_rejected"
        return out
    try:
        in_preds = make_preds(case.IN, prg, "in")
        out_preds = make_preds(case.OUT, prg, "out")
    except Exception:  # pylint: disable=broad-except
        out.status, out.reason = "discard", "autodetect_crash"
        return out
    in_sigs, out_sigs = sigs_of(in_preds), sigs_of(out_preds)
    arg = oracle.parse(case.src)
    if prg_hook is not None:
        arg = prg_hook(arg)  # type: ignore
    opt = run_optimize(arg, in_preds, out_preds, case.traits, opt_timeout)
    out.opt = opt
    if opt.status != "ok":
        out.status = "discard"
        out.reason = {"crash": "optimize_crash", "timeout": "optimize_timeout", "diverged": "optimize_diverged"}[opt.status]
        if opt.status == "crash":
            out.labels.append("crash:" + opt.bucket)
        return out
    out.result_text = opt.text
    fired = opt.trace.fired_names()
    for name in fired:
        out.labels.append("fired:" + name)
    if not opt.trace.available:
        out.labels.append("trace_unavailable")
        changed = True
    elif spec.focus:
        changed = spec.focus in fired
    elif spec.pid == "C05":
        changed = opt.text != oracle.prg_text(prg)
    else:
        changed = bool(fired)
    aux = False
    if spec.need_aux:
        res_prg = oracle.try_parse(opt.text) or []
        aux = bool(astutil.defined(res_prg) - astutil.vocabulary(prg))
    sigs, shown = projection_sigs(spec, case, prg, in_sigs, out_sigs)
    cfg_key = case.config_key()
    for inst in case.instances:
        a = oracle.solve(case.src, inst, case.consts, limit)
        if a.status != "ok":
            out.discards.append("source_" + a.status)
            continue
        pre = oracle.precondition_violated(a)
        if pre:
            out.discards.append(pre)
            continue
        b = oracle.solve(opt.text, inst, case.consts, 4 * limit)
        if b.status == "error":
            failure = {
                "kind": "result_rejected",
                "detail": b.error_text(),
                "instance": inst,
                "result_text": opt.text,
                "attribution": attribute(opt, inst, case.consts, in_sigs | out_sigs, spec.costs, spec.bijection, limit),
            }
            fid = findings.match(spec.pid, case.to_json(), failure)
            if fid:
                out.known.append(fid)  # a recorded finding: count it and keep comparing the other instances
                continue
            if spec.rejected_is_violation or (spec.focus and failure["attribution"].get("pass") == spec.focus):
                out.status = "fail"
                out.failure = failure
                return out
            out.discards.append("result_rejected")
            continue
        if b.status != "ok":
            out.discards.append("result_" + b.status)
            continue
        out.comparisons += 1
        diff = oracle.compare(a, b, sigs, shown, spec.costs, spec.bijection)
        if diff is not None:

            def again(alt: bool, inst: str = inst) -> bool:
                a2, b2 = oracle.solve(case.src, inst, case.consts, limit, alt=alt), oracle.solve(opt.text, inst, case.consts, 4 * limit, alt=alt)
                return a2.status == "ok" and b2.status == "ok" and oracle.compare(a2, b2, sigs, shown, spec.costs, spec.bijection) is not None

            if not oracle.confirmed(again):
                out.discards.append("solver_configurations_disagree")
                continue
            failure = {
                "kind": diff.kind,
                "detail": diff.detail,
                "instance": inst,
                "result_text": opt.text,
                "attribution": attribute(opt, inst, case.consts, in_sigs | out_sigs, spec.costs, spec.bijection, limit),
            }
            fid = findings.match(spec.pid, case.to_json(), failure)
            if fid:
                out.known.append(fid)  # a recorded finding: count it and keep comparing the other instances
                continue
            out.status = "fail"
            out.failure = failure
            return out
        nontriv = changed and len(a.models) >= spec.min_models
        if nontriv and spec.need_cost:
            nontriv = any(m.cost for m in a.models)
        if nontriv and spec.need_aux:
            nontriv = aux
        if nontriv:
            out.nontrivial_instances += 1
            if not out.nontrivial:
                out.nontrivial.append(cfg_key)
    if out.comparisons == 0 and out.discards:
        out.status, out.reason = "discard", "all_instances:" + out.discards[0]
    return out


__all__ = ["SemSpec", "Outcome", "evaluate", "PASS_CLASSES"]
