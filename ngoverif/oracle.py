"""The semantic oracle: clingo itself.

Everything that decides "means the same" goes through `solve` and the compare
helpers below.  See DESIGN.md section 2 for the soundness guards.
"""

from dataclasses import dataclass, field
from typing import Any, Iterable, Optional, Sequence, Union

import clingo
from clingo import Control, MessageCode
from clingo.ast import AST, ProgramBuilder, parse_string

Sig = tuple[str, int]

LIMITS = {"quick": 1500, "thorough": 6000}


def parse(text: str) -> list[AST]:
    """parse text into statements; raises RuntimeError on syntax errors"""
    out: list[AST] = []
    msgs: list[str] = []
    parse_string(text, out.append, logger=lambda c, m: msgs.append(m))
    return out


def try_parse(text: str) -> Optional[list[AST]]:
    """parse or None"""
    try:
        return parse(text)
    except RuntimeError:
        return None


def prg_text(prg: Iterable[AST]) -> str:
    """the text the command line prints"""
    return "\n".join(str(s) for s in prg)


@dataclass
class Model:
    """one answer set"""

    atoms: frozenset
    shown: frozenset  # terms displayed by `#show t : body.` statements (atoms shown by default are not included)
    cost: tuple  # sorted tuple of (priority, value) with value != 0


@dataclass
class SolveResult:
    """outcome of grounding + enumerating"""

    status: str  # ok | error | toomany | timeout
    models: list[Model] = field(default_factory=list)
    msgs: list[tuple[MessageCode, str]] = field(default_factory=list)
    error: str = ""

    def error_text(self) -> str:
        """messages that are errors"""
        errs = [m for c, m in self.msgs if "error" in m]
        return (self.error + " | " + " ".join(errs))[:600]


def _is_noise(code: MessageCode, msg: str) -> bool:
    if code in (MessageCode.AtomUndefined, MessageCode.GlobalVariable, MessageCode.FileIncluded):
        return True
    if code == MessageCode.Other and "No bound given" in msg:
        return True
    return False


def precondition_violated(res: SolveResult) -> Optional[str]:
    """judge the instance preconditions ON THE SOURCE ONLY (DESIGN 2): anything clingo
    says beyond undefined atoms / global-variable infos puts the case outside the domain"""
    for code, msg in res.msgs:
        if _is_noise(code, msg):
            continue
        if code == MessageCode.OperationUndefined:
            return "operation_undefined"
        if "tuple ignored" in msg:
            return "tuple_ignored"
        return "other_message"
    return None


def solve(
    program: Union[str, Sequence[AST]],
    facts: str = "",
    consts: Optional[dict[str, int]] = None,
    limit: int = 1500,
    timeout: float = 20.0,
    alt: bool = False,
) -> SolveResult:
    """ground (base part) and enumerate all answer sets with their costs.
    Two solver configurations: the primary one switches clasp's equivalence preprocessing off (clasp 3.3 / clingo 5.8.2 with
    the default --eq returns two unfounded answer sets and loses one for a 6-rule disjunctive program with a choice rule,
    see DESIGN 11.4 A9), `alt=True` is clasp's default.  A difference between source and result only counts when both
    configurations show it (`confirmed`)."""
    msgs: list[tuple[MessageCode, str]] = []
    args = ["0", "--opt-mode=enum"] + ([] if alt else ["--eq=0"])
    for k, v in sorted((consts or {}).items()):
        args += ["-c", f"{k}={v}"]
    try:
        ctl = Control(args, logger=lambda c, m: msgs.append((c, m)), message_limit=100000)
        if isinstance(program, str):
            ctl.add("base", [], program)
        else:
            with ProgramBuilder(ctl) as bld:
                for stm in program:
                    bld.add(stm)
        if facts:
            ctl.add("base", [], facts)
        ctl.ground([("base", [])])
    except (RuntimeError, MemoryError) as exc:
        return SolveResult("error", [], msgs, f"{type(exc).__name__}: {exc}")
    models: list[Model] = []

    def on_model(m: clingo.Model) -> bool:
        cost = tuple(sorted((p, c) for p, c in zip(m.priority, m.cost) if c != 0))
        models.append(Model(frozenset(m.symbols(atoms=True)), frozenset(m.symbols(terms=True)), cost))
        return len(models) <= limit

    try:
        with ctl.solve(on_model=on_model, async_=True) as handle:
            done = handle.wait(timeout)
            if not done:
                handle.cancel()
                handle.wait()
                return SolveResult("timeout", models, msgs)
            handle.get()
    except RuntimeError as exc:
        return SolveResult("error", [], msgs, f"{type(exc).__name__}: {exc}")
    if len(models) > limit:
        return SolveResult("toomany", models, msgs)
    return SolveResult("ok", models, msgs)


def confirmed(check: Any) -> bool:
    """`check(alt)` recomputes a difference with the given solver configuration and returns True when the difference is there.
    Called after the primary configuration showed it: True only if clasp's default configuration shows it as well."""
    try:
        return bool(check(True))
    except Exception:  # pylint: disable=broad-except
        return True


def grounds(program: Union[str, Sequence[AST]], facts: str = "", consts: Optional[dict[str, int]] = None) -> SolveResult:
    """only parse + ground (no solving): status ok | error"""
    msgs: list[tuple[MessageCode, str]] = []
    args = ["0"]
    for k, v in sorted((consts or {}).items()):
        args += ["-c", f"{k}={v}"]
    try:
        ctl = Control(args, logger=lambda c, m: msgs.append((c, m)), message_limit=100000)
        if isinstance(program, str):
            ctl.add("base", [], program)
        else:
            with ProgramBuilder(ctl) as bld:
                for stm in program:
                    bld.add(stm)
        if facts:
            ctl.add("base", [], facts)
        ctl.ground([("base", [])])
    except (RuntimeError, MemoryError) as exc:
        return SolveResult("error", [], msgs, f"{type(exc).__name__}: {exc}")
    return SolveResult("ok", [], msgs)


def grounds_guarded(text: str, consts: Optional[dict[str, int]] = None, timeout: float = 6.0) -> str:
    """ground in a forked child under a wall-clock limit: ok | error | timeout.
    Used for programs nobody has grounded before (mutants): gringo cannot be interrupted in-process."""
    import os  # pylint: disable=import-outside-toplevel
    import signal  # pylint: disable=import-outside-toplevel
    import time  # pylint: disable=import-outside-toplevel

    pid = os.fork()
    if pid == 0:
        code = 2
        try:
            code = 0 if grounds(text, "", consts).status == "ok" else 1
        except BaseException:  # pylint: disable=broad-except
            code = 2
        os._exit(code)
    deadline = time.time() + timeout
    delay = 0.001
    while time.time() < deadline:
        done, status = os.waitpid(pid, os.WNOHANG)
        if done:
            if os.WIFEXITED(status) and os.WEXITSTATUS(status) == 0:
                return "ok"
            return "error"
        time.sleep(delay)
        delay = min(0.02, delay * 1.5)
    os.kill(pid, signal.SIGKILL)
    os.waitpid(pid, 0)
    return "timeout"


def sig_of(sym: clingo.Symbol) -> Sig:
    """name/arity of an atom"""
    return (sym.name, len(sym.arguments))


def projected(
    models: Iterable[Model], sigs: Optional[set[Sig]], with_shown: bool, with_cost: bool
) -> list[tuple[frozenset, frozenset, tuple]]:
    """project every model: (atoms restricted to sigs (all when None), shown symbols or empty, cost or ())"""
    out = []
    for m in models:
        if sigs is None:
            atoms = m.atoms
        else:
            atoms = frozenset(a for a in m.atoms if a.type == clingo.SymbolType.Function and (a.name, len(a.arguments)) in sigs)
        out.append((atoms, m.shown if with_shown else frozenset(), m.cost if with_cost else ()))
    return out


@dataclass
class Diff:
    """a disagreement between source and result"""

    kind: str  # missing | extra | count | noninjective
    detail: str


def _fmt(pm: tuple[frozenset, frozenset, tuple]) -> str:
    atoms, shown, cost = pm
    s = "{" + " ".join(sorted(map(str, atoms))) + "}"
    if shown:
        s += " shown={" + " ".join(sorted(map(str, shown))) + "}"
    if cost:
        s += " cost=" + ",".join(f"{c}@{p}" for p, c in cost)
    return s


def compare(
    src: SolveResult,
    res: SolveResult,
    sigs: Optional[set[Sig]],
    with_shown: bool,
    with_cost: bool,
    bijection: bool,
) -> Optional[Diff]:
    """compare two enumerations as sets of projected models (plus counts / injectivity when asked)"""
    a = projected(src.models, sigs, with_shown, with_cost)
    b = projected(res.models, sigs, with_shown, with_cost)
    sa, sb = set(a), set(b)
    if sa != sb:
        miss = sorted(map(_fmt, sa - sb))[:3]
        extra = sorted(map(_fmt, sb - sa))[:3]
        if miss:
            return Diff("missing", f"{len(sa - sb)} source answer set(s) lost, e.g. {miss}; extra in result: {extra}")
        return Diff("extra", f"{len(sb - sa)} answer set(s) only in result, e.g. {extra}")
    if bijection:
        if len(b) != len(sb) and len(a) == len(sa):
            return Diff("noninjective", f"result has {len(b)} answer sets but only {len(sb)} distinct projections")
        if len(a) != len(b):
            return Diff("count", f"source has {len(a)} answer sets, result {len(b)}")
    return None
