"""Environment set-up shared by every check.

* code under test is imported from the *current working tree* of /repo
  (``$NGO_REPO/src`` first on ``sys.path``; asserted after import);
* optional third-party packages installed by ``setup_cmd`` live in /verif/.deps.
"""

import logging
import os
import sys

VERIF = os.path.dirname(os.path.dirname(os.path.abspath(__file__)))
REPO = os.environ.get("NGO_REPO", "/repo")
SRC = os.path.join(REPO, "src")
DEPS = os.path.join(VERIF, ".deps")

TRAITS = [
    "cleanup",
    "unused",
    "duplication",
    "symmetry",
    "minmax_chains",
    "sum_chains",
    "math",
    "inline",
    "projection",
]
DEFAULT_TRAITS = [t for t in TRAITS if t != "duplication"]
ADD_ONLY_TRAITS = [t for t in TRAITS if t not in ("unused", "inline")]


class HarnessError(Exception):
    """something is wrong with the machinery, not with ngo (exit status 2)"""


def setup() -> None:
    """make `import ngo` resolve to the working tree of /repo"""
    if SRC in sys.path:
        sys.path.remove(SRC)
    sys.path.insert(0, SRC)
    if os.path.isdir(DEPS) and DEPS not in sys.path:
        sys.path.append(DEPS)
    logging.disable(logging.CRITICAL)
    import ngo  # pylint: disable=import-outside-toplevel

    got = os.path.realpath(ngo.__file__)
    if not got.startswith(os.path.realpath(SRC) + os.sep):
        raise HarnessError(f"ngo imported from {got}, expected below {SRC}")


def child_env(hashseed: str = "0") -> dict[str, str]:
    """environment for sub-processes that import ngo from the working tree"""
    env = dict(os.environ)
    env["PYTHONPATH"] = SRC + os.pathsep + VERIF + (os.pathsep + DEPS if os.path.isdir(DEPS) else "")
    env["PYTHONHASHSEED"] = hashseed
    env["PYTHONDONTWRITEBYTECODE"] = "1"
    return env
