"""Harness-side tracing of ngo.api.optimize (DESIGN.md section 4).

`ngo.api` binds the nine translator classes and preprocess / postprocess /
exline_arithmetic as module globals; `Tracer` swaps them for recording wrappers
for the duration of one `optimize` call.  Nothing in /repo is touched.
"""

from dataclasses import dataclass, field
from typing import Any, Optional

from .astutil import program_dump

PASS_CLASSES = {
    "CleanupTranslator": "cleanup",
    "UnusedTranslator": "unused",
    "LiteralDuplicationTranslator": "duplication",
    "SymmetryTranslator": "symmetry",
    "MinMaxAggregator": "minmax_chains",
    "SumAggregator": "sum_chains",
    "MathSimplification": "math",
    "InlineTranslator": "inline",
    "ProjectionTranslator": "projection",
}
PASS_FUNCS = ["preprocess", "postprocess", "exline_arithmetic"]


class Diverged(Exception):
    """the outer fix-point loop provably never terminates (state repeated with period >= 2)"""

    def __init__(self, period: int, iteration: int, states: list[str]):
        super().__init__(f"outer loop state of iteration {iteration} repeats with period {period}")
        self.period = period
        self.iteration = iteration
        self.states = states


@dataclass
class Step:
    """one pass application"""

    name: str
    iteration: int
    before: str
    after: str

    @property
    def fired(self) -> bool:
        """did the pass change the program"""
        return self.before != self.after


@dataclass
class Trace:
    """what happened in one optimize call"""

    steps: list[Step] = field(default_factory=list)
    iterations: int = 0
    available: bool = True
    missing: list[str] = field(default_factory=list)

    def fired(self, name: Optional[str] = None) -> int:
        """number of applications (of pass `name`) that changed the program; normalisation steps excluded"""
        return sum(
            1
            for s in self.steps
            if s.fired and (s.name == name if name else s.name in PASS_CLASSES.values())
        )

    def fired_names(self) -> list[str]:
        """sorted names of the passes that changed the program at least once"""
        return sorted({s.name for s in self.steps if s.fired and s.name in PASS_CLASSES.values()})


def _text(prg: Any) -> str:
    try:
        return "\n".join(str(s) for s in prg)
    except Exception:  # pylint: disable=broad-except
        return "<unprintable>"


class Tracer:
    """context manager recording every pass application of ngo.api.optimize"""

    def __init__(self, detect_cycles: bool = True, max_iterations: int = 0) -> None:
        self.trace = Trace()
        self._saved: dict[str, Any] = {}
        self._dumps: list[tuple] = []
        self._texts: list[str] = []
        self.detect_cycles = detect_cycles
        self.max_iterations = max_iterations

    def __enter__(self) -> "Tracer":
        import ngo.api as api  # pylint: disable=import-outside-toplevel

        tracer = self
        for cname, pname in PASS_CLASSES.items():
            cls = getattr(api, cname, None)
            if cls is None or not isinstance(cls, type) or not hasattr(cls, "execute"):
                self.trace.missing.append(cname)
                continue
            self._saved[cname] = cls

            def make(base: type, pname: str) -> type:
                class Wrapped(base):  # type: ignore
                    """recording subclass"""

                    def execute(self, prg: Any, *args: Any, **kwargs: Any) -> Any:
                        before = _text(prg)
                        out = super().execute(prg, *args, **kwargs)
                        tracer.trace.steps.append(Step(pname, tracer.trace.iterations, before, _text(out)))
                        return out

                Wrapped.__name__ = base.__name__
                Wrapped.__qualname__ = base.__qualname__
                return Wrapped

            setattr(api, cname, make(cls, pname))
        for fname in PASS_FUNCS:
            fun = getattr(api, fname, None)
            if fun is None or not callable(fun):
                self.trace.missing.append(fname)
                continue
            self._saved[fname] = fun

            def makef(fun: Any, fname: str) -> Any:
                def wrapped(prg: Any, *args: Any, **kwargs: Any) -> Any:
                    prg = list(prg)
                    before = _text(prg)
                    out = fun(prg, *args, **kwargs)
                    tracer.trace.steps.append(Step(fname, tracer.trace.iterations, before, _text(out)))
                    if fname == "exline_arithmetic":
                        tracer._end_of_iteration(out)
                    return out

                return wrapped

            setattr(api, fname, makef(fun, fname))
        self.trace.available = not self.trace.missing
        return self

    def _end_of_iteration(self, prg: Any) -> None:
        self.trace.iterations += 1
        if not self.detect_cycles:
            return
        dump = program_dump(prg)
        n = len(self._dumps)
        if n >= 1 and dump != self._dumps[-1]:
            for j in range(n - 2, -1, -1):
                if self._dumps[j] == dump:
                    texts = self._texts[j:] + [_text(prg)]
                    raise Diverged(n - j, n, texts)
        self._dumps.append(dump)
        self._texts.append(_text(prg))

    def __exit__(self, *exc: Any) -> None:
        import ngo.api as api  # pylint: disable=import-outside-toplevel

        for name, val in self._saved.items():
            setattr(api, name, val)
