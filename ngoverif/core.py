"""Cases, the guarded call of ngo.optimize and small shared helpers."""

import hashlib
import json
import os
import signal
import traceback
from contextlib import contextmanager
from dataclasses import asdict, dataclass, field
from typing import Any, Iterator, Optional, Union

from clingo.ast import AST

from . import astutil, oracle
from .env import TRAITS
from .trace import Diverged, Trace, Tracer

Sig = tuple[str, int]
Decl = Union[str, list]  # "auto" or list of [name, arity]


class Timeout(BaseException):
    """watchdog fired (BaseException: must not be swallowed by `except Exception` inside ngo)"""


def _alarm(*_: Any) -> None:
    raise Timeout()


@contextmanager
def time_limit(seconds: float) -> Iterator[None]:
    """SIGALRM based watchdog for pure-Python code"""
    old = signal.signal(signal.SIGALRM, _alarm)
    signal.setitimer(signal.ITIMER_REAL, seconds)
    try:
        yield
    finally:
        signal.setitimer(signal.ITIMER_REAL, 0)
        signal.signal(signal.SIGALRM, old)


@dataclass
class Case:
    """one generated (program, configuration, instances) tuple"""

    src: str
    IN: Decl = "auto"
    OUT: Decl = "auto"
    traits: list = field(default_factory=list)
    consts: dict = field(default_factory=dict)
    instances: list = field(default_factory=lambda: [""])
    origin: str = ""
    extra: dict = field(default_factory=dict)

    def to_json(self) -> dict:
        """plain dict"""
        return asdict(self)

    @staticmethod
    def from_json(d: dict) -> "Case":
        """inverse of to_json"""
        known = {k: d[k] for k in ("src", "IN", "OUT", "traits", "consts", "instances", "origin", "extra") if k in d}
        return Case(**known)

    def config_key(self) -> str:
        """hash of program + configuration"""
        blob = json.dumps([self.src, self.IN, self.OUT, sorted(self.traits), sorted(self.consts.items()), self.extra.get("key")], sort_keys=True, default=str)
        return hashlib.sha1(blob.encode()).hexdigest()[:16]


def case_hash(*parts: Any) -> str:
    """short stable hash"""
    return hashlib.sha1(json.dumps(parts, sort_keys=True, default=str).encode()).hexdigest()[:16]


@dataclass
class OptOutcome:
    """result of one guarded optimize call"""

    status: str  # ok | crash | timeout | diverged
    result: Optional[list] = None
    text: str = ""
    trace: Trace = field(default_factory=Trace)
    exc_type: str = ""
    exc_msg: str = ""
    bucket: str = ""  # ExceptionType@module:function of the innermost ngo frame
    tb: str = ""
    cycle: Optional[list] = None


def crash_bucket(exc: BaseException) -> tuple[str, str]:
    """(bucket, short traceback): exception type + innermost frame inside ngo/ (module, function)"""
    frames = traceback.extract_tb(exc.__traceback__)
    ngo_frames = [f for f in frames if f"{os.sep}ngo{os.sep}" in f.filename and f"{os.sep}ngoverif{os.sep}" not in f.filename]
    if ngo_frames:
        fr = ngo_frames[-1]
        mod = os.path.splitext(os.path.basename(fr.filename))[0]
        bucket = f"{type(exc).__name__}@{mod}:{fr.name}"
    else:
        bucket = f"{type(exc).__name__}@<outside ngo>"
    short = "".join(traceback.format_list(frames[-6:])) + f"{type(exc).__name__}: {str(exc)[:300]}"
    return bucket, short


def make_preds(decl: Decl, prg: list[AST], which: str) -> list:
    """turn a declaration into ngo Predicate objects"""
    from ngo import Predicate, auto_detect_input, auto_detect_output  # pylint: disable=import-outside-toplevel

    if decl == "auto":
        return list(auto_detect_input(prg) if which == "in" else auto_detect_output(prg))
    return [Predicate(n, int(a)) for n, a in decl]


def reset_ngo_state() -> None:
    """drop the process-wide memo of generated names so memory stays bounded (not used by C17)"""
    try:
        from ngo.dependency import DomainPredicates  # pylint: disable=import-outside-toplevel

        fun = getattr(DomainPredicates, "_predicate", None)
        if fun is not None and hasattr(fun, "cache_clear"):
            fun.cache_clear()
    except Exception:  # pylint: disable=broad-except
        pass


def trait_flags(traits: list) -> dict:
    """keyword flags for optimize"""
    return {t: (t in traits) for t in TRAITS}


def run_optimize(
    prg: list[AST],
    in_preds: list,
    out_preds: list,
    traits: list,
    timeout: float = 30.0,
    trace: bool = True,
    reset: bool = True,
) -> OptOutcome:
    """call ngo.optimize under the watchdog and the tracer"""
    from ngo import optimize  # pylint: disable=import-outside-toplevel

    if reset:
        reset_ngo_state()
    tracer = Tracer(detect_cycles=trace)
    out = OptOutcome("ok")
    try:
        with time_limit(timeout):
            if trace:
                with tracer:
                    res = optimize(prg, in_preds, out_preds, **trait_flags(traits))
            else:
                res = optimize(prg, in_preds, out_preds, **trait_flags(traits))
        out.result = list(res)
        out.text = oracle.prg_text(out.result)
    except Timeout:
        out.status = "timeout"
    except Diverged as exc:
        out.status = "diverged"
        out.exc_msg = str(exc)
        out.cycle = exc.states
    except RecursionError as exc:
        out.status = "crash"
        out.exc_type = "RecursionError"
        out.exc_msg = str(exc)[:200]
        out.bucket, out.tb = crash_bucket(exc)
    except BaseException as exc:  # pylint: disable=broad-except
        if isinstance(exc, (KeyboardInterrupt, SystemExit)):
            raise
        out.status = "crash"
        out.exc_type = type(exc).__name__
        out.exc_msg = str(exc)[:300]
        out.bucket, out.tb = crash_bucket(exc)
    out.trace = tracer.trace
    return out


def optimize_case(case: Case, timeout: float = 30.0, trace: bool = True) -> tuple[Optional[list[AST]], OptOutcome]:
    """parse the case's program and optimise it; (parsed source | None, outcome)"""
    prg = oracle.try_parse(case.src)
    if prg is None:
        return None, OptOutcome("crash", exc_type="ParseError")
    in_preds = make_preds(case.IN, prg, "in")
    out_preds = make_preds(case.OUT, prg, "out")
    return prg, run_optimize(oracle.parse(case.src), in_preds, out_preds, case.traits, timeout, trace)


def sigs_of(preds: list) -> set[Sig]:
    """Predicate objects -> (name, arity)"""
    return {(p.name, p.arity) for p in preds}
