"""Child interpreter for C17: does what ngo.__main__.main does for a stream of tasks (one JSON per line)."""

import json
import logging
import sys


def run_task(task: dict) -> dict:
    """parse, auto-detect when asked, optimize, join str()"""
    from clingo.ast import parse_string  # pylint: disable=import-outside-toplevel
    from ngo import Predicate, auto_detect_input, auto_detect_output, optimize  # pylint: disable=import-outside-toplevel

    import signal  # pylint: disable=import-outside-toplevel

    class _Timeout(BaseException):
        """watchdog"""

    def _alarm(*_: object) -> None:
        raise _Timeout()

    prg: list = []
    signal.signal(signal.SIGALRM, _alarm)
    signal.setitimer(signal.ITIMER_REAL, float(task.get("timeout", 25.0)))
    try:
        parse_string(task["src"], prg.append)
        inp = auto_detect_input(prg) if task["IN"] == "auto" else [Predicate(n, int(a)) for n, a in task["IN"]]
        outp = auto_detect_output(prg) if task["OUT"] == "auto" else [Predicate(n, int(a)) for n, a in task["OUT"]]
        flags = {t: (t in task["traits"]) for t in ["cleanup", "unused", "duplication", "symmetry", "minmax_chains", "sum_chains", "math", "inline", "projection"]}
        res = optimize(prg, inp, outp, **flags)
        return {"key": task["key"], "out": "".join(str(s) + "\n" for s in res)}
    except _Timeout:
        return {"key": task["key"], "error": "TimeoutError"}
    except BaseException as exc:  # pylint: disable=broad-except
        if isinstance(exc, (KeyboardInterrupt, SystemExit)):
            raise
        return {"key": task["key"], "error": type(exc).__name__}
    finally:
        signal.setitimer(signal.ITIMER_REAL, 0)


def main() -> None:
    """loop"""
    logging.disable(logging.CRITICAL)
    for line in sys.stdin:
        line = line.strip()
        if not line:
            continue
        sys.stdout.write(json.dumps(run_task(json.loads(line))) + "\n")
        sys.stdout.flush()


if __name__ == "__main__":
    main()
