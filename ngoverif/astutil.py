"""Syntactic helpers written independently of ngo's own collectors.

A generic recursive walk over ``AST.child_keys`` - no per-node-kind code - so it
cannot share omissions with ngo's hand-written traversals (C18 relies on that).
"""

from typing import Callable, Iterable, Iterator, Optional

from clingo.ast import AST, ASTType, Sign

Sig = tuple[str, int]


def children(node: AST) -> Iterator[AST]:
    """direct AST children"""
    for key in node.child_keys:
        ch = getattr(node, key)
        if ch is None:
            continue
        if isinstance(ch, AST):
            yield ch
        else:
            for x in ch:
                if isinstance(x, AST):
                    yield x


def walk(node: AST) -> Iterator[AST]:
    """all nodes, pre-order"""
    yield node
    for ch in children(node):
        yield from walk(ch)


def atoms_in(node: AST) -> list[Sig]:
    """signatures of all symbolic atoms (with a Function symbol) below node"""
    out = []
    for n in walk(node):
        if n.ast_type == ASTType.SymbolicAtom:
            sym = n.symbol
            if sym.ast_type == ASTType.UnaryOperation:  # classical negation
                sym = sym.argument
            if sym.ast_type == ASTType.Function:
                out.append((sym.name, len(sym.arguments)))
            elif sym.ast_type == ASTType.Pool:
                for a in sym.arguments:
                    if a.ast_type == ASTType.Function:
                        out.append((a.name, len(a.arguments)))
    return out


def variables_in(node: AST) -> list[str]:
    """names of all variables below node"""
    return [n.name for n in walk(node) if n.ast_type == ASTType.Variable]


def node_types(node: AST) -> set[str]:
    """names of all ast types below node"""
    return {n.ast_type.name for n in walk(node)}


def _lit_sig(lit: AST) -> Optional[Sig]:
    if (
        lit.ast_type == ASTType.Literal
        and lit.sign == Sign.NoSign
        and lit.atom.ast_type == ASTType.SymbolicAtom
        and lit.atom.symbol.ast_type == ASTType.Function
    ):
        return (lit.atom.symbol.name, len(lit.atom.symbol.arguments))
    return None


def positive_heads(stm: AST) -> list[tuple[Sig, str]]:
    """predicates occurring as positive head atoms of a rule with the kind of head (pools are expanded)"""
    res: list[tuple[Sig, str]] = []
    if stm.ast_type != ASTType.Rule:
        return res
    try:
        variants = list(stm.unpool())
    except Exception:  # pylint: disable=broad-except
        variants = [stm]
    for var in variants:
        h = var.head
        if h.ast_type == ASTType.Literal:
            s = _lit_sig(h)
            if s:
                res.append((s, "plain"))
        elif h.ast_type == ASTType.Aggregate:
            for e in h.elements:
                s = _lit_sig(e.literal)
                if s:
                    res.append((s, "choice"))
        elif h.ast_type == ASTType.Disjunction:
            for e in h.elements:
                s = _lit_sig(e.literal)
                if s:
                    res.append((s, "disjunction"))
        elif h.ast_type == ASTType.HeadAggregate:
            for e in h.elements:
                s = _lit_sig(e.condition.literal)
                if s:
                    res.append((s, "headaggregate"))
    return res


def vocabulary(prg: Iterable[AST]) -> set[Sig]:
    """all predicate signatures occurring in rules, objectives and directives of prg"""
    out: set[Sig] = set()
    for s in prg:
        out.update(atoms_in(s))
        if s.ast_type == ASTType.ShowSignature:
            out.add((s.name, s.arity))
        elif s.ast_type == ASTType.ProjectSignature:
            out.add((s.name, s.arity))
        elif s.ast_type == ASTType.Defined:
            out.add((s.name, s.arity))
    return out


def rule_vocabulary(prg: Iterable[AST]) -> set[Sig]:
    """predicate signatures occurring in rules and objectives"""
    out: set[Sig] = set()
    for s in prg:
        if s.ast_type in (ASTType.Rule, ASTType.Minimize):
            out.update(atoms_in(s))
    return out


def defined(prg: Iterable[AST]) -> set[Sig]:
    """predicates with at least one positive head occurrence"""
    out: set[Sig] = set()
    for s in prg:
        out.update(sig for sig, _ in positive_heads(s))
    return out


def undefined(prg: Iterable[AST]) -> set[Sig]:
    """predicates of rules/objectives without a defining rule"""
    prg = list(prg)
    return rule_vocabulary(prg) - defined(prg)


def shown_signatures(prg: Iterable[AST]) -> set[Sig]:
    """#show p/n."""
    return {(s.name, s.arity) for s in prg if s.ast_type == ASTType.ShowSignature}


def has_show(prg: Iterable[AST]) -> bool:
    """any #show statement (incl. `#show.`)"""
    return any(s.ast_type in (ASTType.ShowSignature, ASTType.ShowTerm) for s in prg)


def structural_dump(node: AST) -> tuple:
    """node types, attributes and child order - distinguishes what str() conflates"""
    items: list = [node.ast_type.name]
    for key in node.keys():
        if key == "location":
            continue
        val = getattr(node, key)
        if isinstance(val, AST):
            items.append((key, structural_dump(val)))
        elif val is None or isinstance(val, (str, int, bool)):
            items.append((key, val))
        elif hasattr(val, "__iter__") and not isinstance(val, str):
            seq = []
            for x in val:
                seq.append(structural_dump(x) if isinstance(x, AST) else str(x))
            items.append((key, tuple(seq)))
        else:
            items.append((key, str(val)))
    return tuple(items)


def program_dump(prg: Iterable[AST]) -> tuple:
    """structural dump of a whole program incl. statement begin lines"""
    return tuple((s.location.begin.line, structural_dump(s)) for s in prg)


def count_nodes(prg: Iterable[AST], pred: Callable[[AST], bool]) -> int:
    """number of nodes in prg satisfying pred"""
    return sum(1 for s in prg for n in walk(s) if pred(n))


def positive_dependency_recursive(prg: list[AST]) -> set[Sig]:
    """predicates on a dependency cycle (any sign) - used to screen possibly infinite groundings"""
    edges: dict[Sig, set[Sig]] = {}
    for s in prg:
        if s.ast_type != ASTType.Rule:
            continue
        heads = set(atoms_in(s.head))
        body: set[Sig] = set()
        for b in s.body:
            body.update(atoms_in(b))
        for n in walk(s.head):  # conditions inside the head
            if n.ast_type == ASTType.ConditionalLiteral:
                for c in n.condition:
                    body.update(atoms_in(c))
        for h in heads:
            edges.setdefault(h, set()).update(body)
    # transitive closure (tiny graphs)
    rec: set[Sig] = set()
    for start in edges:
        seen: set[Sig] = set()
        todo = list(edges.get(start, ()))
        while todo:
            x = todo.pop()
            if x in seen:
                continue
            seen.add(x)
            todo.extend(edges.get(x, ()))
        if start in seen:
            rec.add(start)
    return rec


def head_atoms(stm: AST) -> list[AST]:
    """the atoms a rule can derive (any sign), without the conditions"""
    if stm.ast_type != ASTType.Rule:
        return []
    h = stm.head
    lits = []
    if h.ast_type == ASTType.Literal:
        lits.append(h)
    elif h.ast_type in (ASTType.Aggregate, ASTType.Disjunction):
        lits.extend(e.literal for e in h.elements)
    elif h.ast_type == ASTType.HeadAggregate:
        lits.extend(e.condition.literal for e in h.elements)
    return [l.atom for l in lits if l.ast_type == ASTType.Literal]


def _is_constant(term: AST) -> bool:
    return not any(n.ast_type == ASTType.Variable for n in walk(term))


def _direct_positive_vars(lits: Iterable[AST]) -> set[str]:
    """variables occurring as a plain argument of a positive atom (also inside conditions)"""
    out: set[str] = set()
    for lit in lits:
        for n in walk(lit):
            if n.ast_type == ASTType.Literal and n.sign == Sign.NoSign and n.atom.ast_type == ASTType.SymbolicAtom:
                sym = n.atom.symbol
                if sym.ast_type == ASTType.Function:
                    for a in sym.arguments:
                        if a.ast_type == ASTType.Variable:
                            out.add(a.name)
    return out


def may_ground_infinitely(prg: list[AST]) -> bool:
    """conservative screen for term-creating recursion: in a rule whose head predicate lies on a
    dependency cycle every head argument must be a constant or a variable that is a plain argument
    of a positive atom of the same rule (then no new term is ever built)"""
    rec = positive_dependency_recursive(prg)
    if not rec:
        return False
    for s in prg:
        if s.ast_type != ASTType.Rule:
            continue
        if not set(atoms_in(s.head)) & rec:
            continue
        ok_vars = _direct_positive_vars(s.body)
        # conditions of head elements bind as well
        for n in walk(s.head):
            if n.ast_type == ASTType.ConditionalLiteral:
                ok_vars |= _direct_positive_vars(n.condition)
        for atom in head_atoms(s):
            if atom.ast_type != ASTType.SymbolicAtom:
                continue
            sym = atom.symbol
            if sym.ast_type == ASTType.UnaryOperation:
                sym = sym.argument
            if sym.ast_type != ASTType.Function:
                return True
            if (sym.name, len(sym.arguments)) not in rec:
                continue
            for a in sym.arguments:
                if a.ast_type == ASTType.Variable and a.name in ok_vars:
                    continue
                if _is_constant(a):
                    continue
                return True
    return False


def gringo_scope_quirk(prg: list[AST]) -> bool:
    """A variable name that is local both to a choice / head-aggregate element and to a body aggregate or
    conditional literal of the same rule.  gringo 5.8 joins the two scopes when it rewrites the head elements
    ('{ bar(X): dom(X) } :- 14 > #min { X: foo(X) }.' derives nothing for foo(2), dom(3), while the alpha-variant
    with Z in the head derives { bar(3) }), so the meaning of such a rule depends on variable names.  The
    oracle cannot be trusted on these programs; they are discarded and counted."""
    for s in prg:
        if s.ast_type != ASTType.Rule or s.head.ast_type not in (ASTType.Aggregate, ASTType.HeadAggregate):
            continue
        plain: set[str] = set()
        inner: set[str] = set()
        for lit in s.body:
            if lit.ast_type == ASTType.Literal and lit.atom.ast_type in (ASTType.BodyAggregate, ASTType.Aggregate):
                for g in (lit.atom.left_guard, lit.atom.right_guard):
                    if g is not None:
                        plain.update(variables_in(g))
                for e in lit.atom.elements:
                    inner.update(variables_in(e))
            elif lit.ast_type == ASTType.ConditionalLiteral:
                inner.update(variables_in(lit))
            else:
                plain.update(variables_in(lit))
        head_vars = set(variables_in(s.head))
        if (head_vars & inner) - plain - {"_"}:
            return True
    return False
