"""ddmin-style reduction of a concrete failing case (statements, literals, facts, traits)."""

import time
from typing import Callable

from clingo.ast import ASTType

from . import oracle
from .core import Case


def _one_minimal(items: list, test: Callable[[list], bool], deadline: float) -> list:
    """greedy removal: chunks first, then single elements"""
    n = 2
    while len(items) >= 2 and time.time() < deadline:
        chunk = max(1, len(items) // n)
        removed = False
        i = 0
        while i < len(items) and time.time() < deadline:
            cand = items[:i] + items[i + chunk :]
            if cand != items and test(cand):
                items = cand
                removed = True
            else:
                i += chunk
        if not removed:
            if chunk == 1:
                break
            n = min(len(items), n * 2)
    if len(items) == 1 and time.time() < deadline and test([]):
        return []
    return items


def _statements(src: str) -> list[str]:
    prg = oracle.try_parse(src) or []
    return [str(s) for s in prg if not (s.ast_type == ASTType.Program and s.name == "base" and not s.parameters)]


def _literal_variants(stm_text: str) -> list[str]:
    """the statement with one body literal / one aggregate or head element removed"""
    prg = oracle.try_parse(stm_text)
    if not prg:
        return []
    stm = prg[-1]
    out = []
    if stm.ast_type in (ASTType.Rule, ASTType.Minimize):
        body = list(stm.body)
        for i in range(len(body)):
            out.append(str(stm.update(body=body[:i] + body[i + 1 :])))
        for i, lit in enumerate(body):
            atom = getattr(lit, "atom", None)
            if atom is not None and atom.ast_type in (ASTType.BodyAggregate, ASTType.Aggregate) and len(atom.elements) > 1:
                els = list(atom.elements)
                for j in range(len(els)):
                    nlit = lit.update(atom=atom.update(elements=els[:j] + els[j + 1 :]))
                    out.append(str(stm.update(body=body[:i] + [nlit] + body[i + 1 :])))
            if atom is not None and atom.ast_type == ASTType.BodyAggregate:
                els = list(atom.elements)
                for j, el in enumerate(els):
                    cond = list(el.condition)
                    for k in range(len(cond)):
                        nel = el.update(condition=cond[:k] + cond[k + 1 :])
                        nlit = lit.update(atom=atom.update(elements=els[:j] + [nel] + els[j + 1 :]))
                        out.append(str(stm.update(body=body[:i] + [nlit] + body[i + 1 :])))
            if lit.ast_type == ASTType.ConditionalLiteral:
                cond = list(lit.condition)
                for k in range(len(cond)):
                    out.append(str(stm.update(body=body[:i] + [lit.update(condition=cond[:k] + cond[k + 1 :])] + body[i + 1 :])))
    if stm.ast_type == ASTType.Rule and stm.head.ast_type in (ASTType.Aggregate, ASTType.Disjunction, ASTType.HeadAggregate):
        els = list(stm.head.elements)
        if len(els) > 1:
            for j in range(len(els)):
                out.append(str(stm.update(head=stm.head.update(elements=els[:j] + els[j + 1 :]))))
    return out


def shrink(case: Case, still_fails: Callable[[Case], bool], budget_s: float = 60.0) -> Case:
    """reduce the case while `still_fails` keeps returning True"""
    deadline = time.time() + budget_s
    cur = Case.from_json(case.to_json())

    def attempt(**changes) -> bool:
        cand = Case.from_json({**cur.to_json(), **changes})
        try:
            return still_fails(cand)
        except Exception:  # pylint: disable=broad-except
            return False

    # 1. a single instance
    for inst in cur.instances:
        if time.time() > deadline:
            break
        if attempt(instances=[inst]):
            cur.instances = [inst]
            break
    # 2. facts of that instance
    if len(cur.instances) == 1 and cur.instances[0]:
        facts = [f.strip() + "." for f in cur.instances[0].split(". ") if f.strip()]
        facts = [f if not f.endswith("..") else f[:-1] for f in facts]
        facts = _one_minimal(facts, lambda fs: attempt(instances=[" ".join(fs)]), deadline)
        cur.instances = [" ".join(facts)]
    # 3. statements
    stms = _statements(cur.src)
    if stms and attempt(src="\n".join(stms)):
        stms = _one_minimal(stms, lambda ss: attempt(src="\n".join(ss)), deadline)
        cur.src = "\n".join(stms)
        # 4. literals
        progress = True
        while progress and time.time() < deadline:
            progress = False
            for i, stm in enumerate(list(stms)):
                for variant in _literal_variants(stm):
                    if time.time() > deadline:
                        break
                    cand = stms[:i] + [variant] + stms[i + 1 :]
                    if attempt(src="\n".join(cand)):
                        stms = cand
                        cur.src = "\n".join(stms)
                        progress = True
                        break
                if progress:
                    break
    # 5. traits
    if cur.traits:
        traits = _one_minimal(list(cur.traits), lambda ts: attempt(traits=ts), deadline)
        cur.traits = traits
    # 6. constants
    if cur.consts and attempt(consts={}):
        cur.consts = {}
    return cur
