"""Known findings (DESIGN.md section 5).  The file is read, never written, at run time."""

import json
import os
from functools import lru_cache
from typing import Optional

from .env import VERIF

PATH = os.path.join(VERIF, "known_findings.json")


@lru_cache(maxsize=None)
def load() -> list[dict]:
    """all entries"""
    if not os.path.exists(PATH):
        return []
    with open(PATH, encoding="utf8") as fh:
        return json.load(fh)["findings"]


def open_for(pid: str) -> list[dict]:
    """open findings filed under this property"""
    return [f for f in load() if f.get("status") == "open" and pid in f.get("properties", [])]


def fixed_for(pid: str) -> list[dict]:
    """repaired findings filed under this property (they suppress nothing)"""
    return [f for f in load() if f.get("status") == "fixed" and pid in f.get("properties", [])]


def match(pid: str, case: dict, failure: dict) -> Optional[str]:
    """id of the open finding (filed under pid) whose matcher accepts this failure"""
    from . import triggers  # pylint: disable=import-outside-toplevel

    for f in open_for(pid):
        m = f.get("matcher", {})
        try:
            if triggers.matches(m, case, failure):
                return f["id"]
        except Exception:  # pylint: disable=broad-except
            continue
    return None


def line(f: dict, pid: str) -> str:
    """the KNOWN-FINDING line for property pid"""
    return f"KNOWN-FINDING: property={pid} {f['id']}: {f['what_fails']}"
