"""C03 - optimize always returns: no exception, failed assertion or endless fixpoint loop."""

import subprocess
import sys
from typing import Any

from hypothesis import strategies as st

from .. import astutil, env, oracle
from ..core import Case, case_hash, make_preds, run_optimize
from ..gen import config, grammar, mutate, robust
from ..semantic import Outcome
from . import c01, common

PID = "C03"
LEVEL = "exploration"
TECHNIQUE = "property-based robustness fuzzing (Hypothesis generators incl. non-optimised constructs; oracle: no exception, no provable fix-point cycle; crash bucketing)"
LEVEL_TEXT = (
    "Exploration: optimize is called on thousands of valid generated programs (all constructs of the input language incl. the ones no trait optimises), "
    "trait subsets and declarations; any exception or assertion is a violation (bucketed by exception type + innermost ngo frame), a repeated outer-loop state "
    "with period >= 2 is a proof of divergence, a watchdog timeout is reported as inconclusive."
)
LEVEL_NOTE = "Termination in general is undecidable here: only exception-freedom on explored inputs and absence of provable cycles are shown; timeouts are inconclusive. Trusted: clingo parser/grounder for validity, Hypothesis."
RULE = (
    "cases = valid programs (clingo parses and grounds them) from the free grammar, all pass templates, corpus seeds and mutants, each extended with 1-4 statements of kinds the traits do not "
    "optimise (head aggregates of every function, guard-less and two-guard aggregates, several aggregates per rule, theory atoms, #external/#heuristic/#edge/#project/#defined, pools, intervals, #inf/#sup, strings, classical negation, other #program parts); "
    "any trait subset; declarations incl. empty, auto, absent predicates, derived predicates in IN. oracle: optimize returns a list without raising; no outer-loop state repeats with period >= 2; a sample goes through `python -m ngo` (exit 0). "
    "non-trivial = the program contains a construct outside the optimised core OR >= 2 passes fired; distinct = distinct (program, configuration) hash."
)
ASSUMPTIONS = [
    "validity of the source is judged by clingo (parse + ground without error, guarded by a wall-clock limit)",
    "a watchdog timeout of optimize is inconclusive, never a violation",
    "crashes listed in known_findings.json are suppressed by (exception type, innermost ngo frame) only",
]
CLI_SAMPLE = 40  # one case in CLI_SAMPLE also goes through the command line


def budget(tier: str) -> int:
    """generated cases"""
    return 3200 if tier == "quick" else 40000


def time_budget(tier: str) -> float:
    """soft wall-clock budget in seconds"""
    return 400.0 if tier == "quick" else 3600.0


def corpus_items(tier: str) -> list:
    """the whole corpus incl. programs clingo rejects as unsafe only if they at least parse (validity re-checked per case)"""
    return common.corpus_entries()


def _decorate(draw: Any, src: str, origin: str, tier: str) -> Case:
    ex, labels = robust.extras(draw)
    if draw(st.integers(0, 9)) < 8:
        src = src + "\n" + "\n".join(ex)
    else:
        labels = []
    traits = config.trait_subset(draw)
    info = common.analyse(src)
    if info is None:
        return Case(src=src, IN=[], OUT=[], traits=traits, origin=origin)
    k = draw(st.integers(0, 9))
    und, dfn, voc = info["undefined"], info["defined"], info["voc"]
    if k < 3:
        IN, OUT, lab = "auto", "auto", "auto/auto"
    elif k < 4:
        IN, OUT, lab = [], [], "empty/empty"
    elif k < 5:
        IN, OUT, lab = [list(s) for s in sorted(voc)] + [["absent", 2]], [list(s) for s in sorted(voc)] + [["__dom_p", 1]], "everything+absent"
    else:
        IN, OUT, lab = config.declarations(draw, und, dfn, voc, extra_in_percent=50)
    return Case(src=src, IN=IN, OUT=OUT, traits=traits, origin=origin, instances=[], extra={"decl": lab, "robust": labels, "cli": draw(st.integers(0, CLI_SAMPLE - 1)) == 0})


@st.composite
def corpus_strategy(draw: Any, item: dict, tier: str) -> Any:
    """corpus program as is (default or all traits) - these are the inputs the authors care about"""
    c = _decorate(draw, item["src"], f"corpus:{item['file']}:{item['idx']}", tier)
    c.src = item["src"]
    return c


@st.composite
def strategy(draw: Any, tier: str) -> Any:
    """generated search"""
    k = draw(st.integers(0, 19))
    if k < 6:
        return _decorate(draw, draw(grammar.programs()), "grammar", tier)
    if k < 13:
        src, name = c01.any_template(draw)
        return _decorate(draw, src, "template:" + name, tier)
    item = draw(st.sampled_from(corpus_items(tier)))
    src, _ = mutate.mutant(draw, item["src"])
    return _decorate(draw, src, "mutant:" + item["file"], tier)


CORE_TYPES = {"TheoryAtom", "External", "Heuristic", "Edge", "ProjectAtom", "ProjectSignature", "Defined", "HeadAggregate", "Pool", "Interval", "Program", "TheoryDefinition"}


def evaluate(case: Case, tier: str) -> Outcome:
    """no exception, no cycle"""
    out = Outcome()
    prg = oracle.try_parse(case.src)
    if prg is None:
        out.status, out.reason = "discard", "source_syntax"
        return out
    if astutil.may_ground_infinitely(prg):
        out.status, out.reason = "discard", "source_possibly_infinite"
        return out
    if oracle.grounds_guarded(case.src, case.consts) != "ok":
        out.status, out.reason = "discard", "source_rejected"
        return out
    try:
        in_preds = make_preds(case.IN, prg, "in")
        out_preds = make_preds(case.OUT, prg, "out")
    except BaseException as exc:  # pylint: disable=broad-except
        from ..core import crash_bucket  # pylint: disable=import-outside-toplevel

        bucket, tb = crash_bucket(exc)
        out.status = "fail"
        out.failure = {"kind": "crash_autodetect", "bucket": bucket, "detail": tb, "attribution": {"pass": "auto_detect"}}
        return out
    opt = run_optimize(oracle.parse(case.src), in_preds, out_preds, case.traits, 20.0 if tier == "quick" else 60.0)
    out.opt = opt
    out.labels.append("decl:" + str(case.extra.get("decl")))
    out.labels.append("traits:" + common.trait_class(case.traits))
    for lab in case.extra.get("robust", []):
        out.labels.append("robust:" + lab)
    types = set()
    for s in prg:
        types |= astutil.node_types(s)
    special = sorted(types & CORE_TYPES)
    for tname in special:
        out.labels.append("kind:" + tname.lower())
    if opt.status == "crash":
        out.status = "fail"
        out.failure = {"kind": "crash", "bucket": opt.bucket, "detail": f"{opt.exc_type}: {opt.exc_msg}\n{opt.tb}", "attribution": {"pass": opt.bucket.split("@")[-1]}}
        return out
    if opt.status == "diverged":
        out.status = "fail"
        out.failure = {"kind": "diverged", "bucket": "diverged", "detail": opt.exc_msg, "cycle": opt.cycle, "attribution": {"pass": "outer_loop"}}
        return out
    if opt.status == "timeout":
        out.status, out.reason = "discard", "inconclusive_timeout"
        return out
    if not isinstance(opt.result, list):
        out.status = "fail"
        out.failure = {"kind": "not_a_list", "bucket": "not_a_list", "detail": str(type(opt.result)), "attribution": {"pass": "api"}}
        return out
    for name in opt.trace.fired_names():
        out.labels.append("fired:" + name)
    out.labels.append(f"iterations:{min(opt.trace.iterations, 6)}")
    if case.extra.get("cli") and case.IN != "auto" and all(" " not in n and "," not in n for n, _ in list(case.IN) + list(case.OUT if case.OUT != "auto" else [])):
        args = [sys.executable, "-m", "ngo", "--enable"] + (case.traits or ["none"])
        args.append("--input-predicates=" + ",".join(f"{n}/{a}" for n, a in case.IN))
        args.append("--output-predicates=" + (",".join(f"{n}/{a}" for n, a in case.OUT) if case.OUT != "auto" else "auto"))
        try:
            proc = subprocess.run(args, input=case.src.encode(), capture_output=True, env=env.child_env("0"), timeout=120, check=False)
            out.labels.append("cli_checked")
            if proc.returncode != 0:
                out.status = "fail"
                out.failure = {"kind": "cli_nonzero", "bucket": "cli_nonzero", "detail": proc.stderr.decode(errors="replace")[-800:], "attribution": {"pass": "cli"}}
                return out
        except subprocess.TimeoutExpired:
            out.labels.append("cli_timeout_inconclusive")
    if special or len(opt.trace.fired_names()) >= 2:
        out.nontrivial.append(case.config_key())
    return out


def sample(case: Case, out: Outcome) -> dict:
    """for the evidence"""
    return {"program": case.src, "IN": case.IN, "OUT": case.OUT, "traits": case.traits, "origin": case.origin, "labels": sorted(set(out.labels)), "result": (out.opt.text if out.opt else "")[:1500]}


ATHERIS_SECONDS = 300


def shard_extra(tier: str, seed: int, shard: int, nshards: int) -> dict:
    """thorough tier only: a coverage-guided campaign (atheris/libFuzzer over the same strategy) per shard"""
    import glob  # pylint: disable=import-outside-toplevel
    import json  # pylint: disable=import-outside-toplevel
    import os  # pylint: disable=import-outside-toplevel
    import shutil  # pylint: disable=import-outside-toplevel

    if tier != "thorough":
        return {}
    outdir = os.path.join(env.VERIF, ".work", f"atheris_{os.getpid()}_{shard}")
    res: dict = {"atheris_campaigns": 0, "atheris_executions": 0, "atheris_known_hits": 0, "atheris_unavailable": 0}
    try:
        proc = subprocess.run(
            [sys.executable, "-m", "ngoverif.fuzz_c03", outdir, str(ATHERIS_SECONDS), str(seed * 100 + shard + 1)],
            env=env.child_env("0"), cwd=env.VERIF, capture_output=True, timeout=ATHERIS_SECONDS + 240, check=False,
        )
        if proc.returncode == 3:
            res["atheris_unavailable"] = 1
        else:
            res["atheris_campaigns"] = 1
    except subprocess.TimeoutExpired:
        res["atheris_campaigns"] = 1
    failures = []
    try:
        with open(os.path.join(outdir, "stats.json"), encoding="utf8") as fh:
            st_ = json.load(fh)
        res["atheris_executions"] = st_.get("executions", 0)
        res["atheris_known_hits"] = st_.get("known", 0)
    except (OSError, ValueError):
        pass
    for path in sorted(glob.glob(os.path.join(outdir, "crash_*.json"))):
        with open(path, encoding="utf8") as fh:
            failures.append(json.load(fh))
    shutil.rmtree(outdir, ignore_errors=True)
    res["failures"] = failures
    res["evaluations"] = res["atheris_executions"]
    return res
