"""C05 - with every trait disabled the rewrite is meaning-preserving for all predicates (DESIGN.md 6/C05)."""

from typing import Any

from hypothesis import strategies as st

from ..gen import grammar, mutate, templates
from ..semantic import SemSpec
from . import common

PID = "C05"
LEVEL = "exploration"
SPEC = SemSpec(pid=PID, proj="vocfacts", costs=True, bijection=True, rejected_is_violation=True)
RULE = (
    "cases = programs from the free grammar, normalisation templates and (mutated) corpus seeds, each optimised once "
    "with all nine traits off and IN=OUT=[] and compared on k instances of ground facts over ANY predicate of P; oracle: "
    "set of (answer set restricted to voc(P) and the fact predicates, cost per priority with zero levels dropped) equal, equal counts (bijection). "
    "non-trivial = the normal form differs from the parsed source text AND P+F has at least one answer set; "
    "distinct = distinct hash of (program, configuration, instance)."
)
ASSUMPTIONS = common.BASE_ASSUMPTIONS

evaluate = common.labelled_evaluate(SPEC)
sample = common.sample


def budget(tier: str) -> int:
    """generated cases per run"""
    return 3200 if tier == "quick" else 64000


def corpus_items(tier: str) -> list:
    """stage 2: the whole valid corpus (normalisation runs on everything)"""
    return common.corpus_entries()


@st.composite
def corpus_strategy(draw: Any, item: dict, tier: str) -> Any:
    """corpus program x fresh instances"""
    return common.build_case(draw, item["src"], f"corpus:{item['file']}:{item['idx']}", tier, [], decl="empty", facts_over="any")


@st.composite
def strategy(draw: Any, tier: str) -> Any:
    """generated search"""
    k = draw(st.integers(0, 19))
    if k < 9:
        src = draw(grammar.programs())
        return common.build_case(draw, src, "grammar", tier, [], decl="empty", facts_over="any", sorts=common.GRAMMAR_SORTS)
    if k < 14:
        src, name = templates.normalize_program(draw)
        return common.build_case(draw, src, "template:" + name, tier, [], decl="empty", facts_over="any")
    items = corpus_items(tier)
    item = draw(st.sampled_from(items))
    src, ops = mutate.mutant(draw, item["src"])
    return common.build_case(draw, src, "mutant:" + item["file"], tier, [], decl="empty", facts_over="any")

TECHNIQUE = "property-based differential testing (Hypothesis generators; clingo enumerates source vs normal form)"
LEVEL_TEXT = (
    "Exploration: thousands of generated programs (free grammar, normalisation templates, mutated test inputs) are normalised "
    "with all traits off and compared with the source under clingo on generated fact sets over arbitrary predicates, "
    "requiring equal projected answer sets, costs and counts. Shows absence of violations only on the explored, bounded inputs."
)
LEVEL_NOTE = "Trusted: clingo 5.8.2, Hypothesis. Bounded program/instance sizes; recorded findings F01/F02 are suppressed only on their narrow triggers."
