"""C06 - traits that only add auxiliary predicates keep all source atoms, one-to-one."""

from typing import Any, Callable

from hypothesis import strategies as st

from ..env import ADD_ONLY_TRAITS
from ..gen import config, templates
from ..semantic import SemSpec
from . import common

ADD_TEMPLATES = [templates.cleanup_program, templates.duplication_program, templates.symmetry_program, templates.minmax_chains_program, templates.sum_chains_program, templates.math_program, templates.projection_program]


def add_only_template(draw: Callable) -> tuple:
    """two template families in one program so that several auxiliary families coexist"""
    fn = draw(st.sampled_from(ADD_TEMPLATES))
    src, name = fn(draw)
    if draw(st.integers(0, 9)) < 5:
        fn2 = draw(st.sampled_from(ADD_TEMPLATES))
        src2, name2 = fn2(draw)
        src, name = src + "\n" + src2, name + "&" + name2
    return src, name


def add_only_traits(draw: Callable) -> list:
    """non-empty-biased subset of the seven add-only traits"""
    k = draw(st.integers(0, 9))
    if k < 2:
        return list(ADD_ONLY_TRAITS)
    if k < 4:
        return [t for t in ADD_ONLY_TRAITS if t != "math"]
    return config.trait_subset_light(draw, ADD_ONLY_TRAITS)


common.install(
    globals(),
    pid="C06",
    spec=SemSpec(pid="C06", proj="voc", costs=True, bijection=True, need_aux=True, min_models=2),
    rule=(
        "cases = programs mixing the templates of the seven add-only passes (cleanup, duplication, symmetry, minmax_chains, sum_chains, math, projection), corpus seeds, mutants, grammar; "
        "traits = generated subset of those seven (unused = inline = False), any declarations. oracle: M -> M|voc(P) must be a bijection from AS(result+I) onto AS(P+I): "
        "equal sets of (projection, costs), equal model counts, injective projection. non-trivial = the result defines an auxiliary predicate that is not in voc(P) AND P+I has >= 2 answer sets; "
        "distinct = distinct (program, configuration) hash."
    ),
    traits_fn=add_only_traits,
    corpus_sel=lambda: common.corpus_entries(),
    template=add_only_template,
    mix=(3, 11, 6),
    budgets=(1800, 24000),
    decl="free",
    level_text="Exploration: differential testing with model counting: restricted to the source vocabulary the result must have exactly the source's answer sets, with equal counts (auxiliary atoms determined by source atoms).",
)
