"""C19 - the command line is the API: options select exactly the documented traits."""

import itertools
import subprocess
import sys
from typing import Any, Optional

from hypothesis import strategies as st

from .. import env, oracle
from ..core import Case, make_preds, run_optimize
from ..env import DEFAULT_TRAITS, TRAITS
from ..gen import grammar
from ..semantic import Outcome
from . import c01, common

PID = "C19"
LEVEL = "exploration"
TECHNIQUE = "property-based differential testing: real `python -m ngo` subprocess vs the API called with an independently written expansion of the options"
LEVEL_TEXT = (
    "Exploration: generated --enable lists (keywords, names, repetitions, mixed case, invalid combinations), predicate options (absent, auto, empty, no argument, lists with spaces, malformed) and log levels are "
    "given to a real `python -m ngo` process fed through stdin; stdout must be byte-identical to the statements optimize returns for the documented expansion, exit status 0; invalid combinations must be rejected with empty stdout. "
    "The thorough tier enumerates all 512 trait subsets on three programs."
)
LEVEL_NOTE = "Trusted: the 10-line reference expansion written from the README/help text; the in-process optimize as the expected value (its own correctness is C01-C16's business)."
RULE = (
    "cases = (option list, program): --enable sequences over {all, none, default} + nine names with repetitions, any order, mixed case, plus invalid ones (none combined, unknown names); --input-predicates/--output-predicates in "
    "{absent, auto, empty string, no argument, name/arity list with spaces, malformed}; --log in four levels any case; programs from the corpus and the free grammar that optimize handles. oracle: stdout == ''.join(str(s)+'\\n' for s in optimize(parse(stdin), IN, OUT, flags)), "
    "exit 0, for valid options; non-zero exit and empty stdout for invalid ones. non-trivial = valid options whose output differs from the --enable none output and the option list is not literally the default; distinct = distinct (argv, program) hash."
)
ASSUMPTIONS = ["cases in which the in-process optimize raises or times out are C03's business and are skipped (counted)", "both sides run with PYTHONHASHSEED=0 (hash-seed independence is C17's business)"]
NAMES = list(TRAITS)
FIXED = [
    "{a(1..3)}.\np(X) :- a(X).\np(X,Y) :- a(X), a(Y), X<Y.\nq(X) :- p(X,_).\n:- q(3).",
    "{ shift(D,L) : pshift(D,L) } 1 :- day(D).\na(X) :- X = #sum {L,D : shift(D,L)}.\nb(X,Y) :- dom(X), dom(Y), X+Y < 42.\nc(X,Y) :- b(X,Y), dom(X), dom(Y).\n#show a/1.\n#show c/2.",
    "foo :- a, b, c.\nbar :- a, b, d.\nfoobar :- {e : a, b}.\n:- slot(J1,M,T); slot(J2,M,T); J1 != J2.\nmx(P,X) :- X = #max {V, ID : skill(P, ID, V)}, person(P).\n{skill(P,I,V)} :- cand(P,I,V).",
    "suminline(A,B) :- a(A); B = #sum { Y: person(A,Y) }.\nfoo(X) :- X = #sum { F,V: suminline(V,F); A: test(A,B) }.\np(A,D) :- q(A,B,C), r(A,D), t(E), not s(B,E).\nz :- X = #sum { 1,a : a }, Y=#sum{ 1,b: b }, X+Y=2.\n#show foo/1. #show p/2.",
]


def expand(enable: Optional[list]) -> Optional[set]:
    """the documented expansion; None = must be rejected"""
    if enable is None:
        return set(DEFAULT_TRAITS)
    vals = [v.lower() for v in enable]
    if not vals:
        return None
    if any(v not in NAMES + ["all", "none", "default"] for v in vals):
        return None
    if "none" in vals:
        return None if len(vals) > 1 else set()
    if "all" in vals:
        return set(NAMES)
    res = set(v for v in vals if v != "default")
    if "default" in vals:
        res |= set(DEFAULT_TRAITS)
    return res


def parse_preds(value: Any) -> Any:
    """documented meaning of a predicate option: 'absent' | 'auto' -> auto, '' / no argument -> [], list -> [(name, arity)], 'invalid'"""
    if value in ("absent", "auto"):
        return "auto"
    if value in ("", None):
        return []
    out = []
    for part in value.split(","):
        sl = part.split("/")
        if len(sl) != 2:
            return "invalid"
        try:
            out.append([sl[0].strip(" "), int(sl[1])])
        except ValueError:
            return "invalid"
    return out


def budget(tier: str) -> int:
    """subprocess runs"""
    return 320 if tier == "quick" else 6400


def time_budget(tier: str) -> float:
    """soft budget"""
    return 420.0 if tier == "quick" else 5400.0


def corpus_items(tier: str) -> list:
    """exhaustive sub-space (thorough): all 512 trait subsets as name lists on three fixed programs; quick: 24 of them"""
    subsets = [list(c) for r in range(len(NAMES) + 1) for c in itertools.combinations(NAMES, r)]
    items = []
    for pi, prog in enumerate(FIXED):
        for si, sub in enumerate(subsets):
            if tier == "quick" and (si * 7 + pi) % 64 != 0:
                continue
            items.append({"prog": pi, "enable": sub or ["none"]})
    # keyword combinations: default plus each single name, the keywords alone and together (the documented "union")
    combos = [["default", n] for n in NAMES] + [["all"], ["default"], ["none"], ["default", "default"], ["all", "default"], ["all", "duplication"], ["default", "duplication", "math"], ["none", "math"], ["math", "none"]]
    for pi, prog in enumerate(FIXED):
        for ci, combo in enumerate(combos):
            if tier == "quick" and (ci + pi) % 3 != 0 and combo != ["default", "duplication"]:
                continue
            items.append({"prog": pi, "enable": combo})
    # predicate lists that name one predicate with two arities (program 0 defines p/1 and p/2)
    for outp in ["p/1,p/2", "p/2, p/1", "q/1,p/2,p/1", "p/2", ""]:
        items.append({"prog": 0, "enable": ["default"], "outp": outp})
        items.append({"prog": 0, "enable": ["unused"], "outp": outp, "inp": "a/1"})
    return items


@st.composite
def corpus_strategy(draw: Any, item: dict, tier: str) -> Any:
    """one subset, names in a drawn order"""
    enable = list(draw(st.permutations(item["enable"])))
    return Case(src=FIXED[item["prog"]], origin="exhaustive_subsets", instances=[], extra={"enable": enable, "inp": item.get("inp", "absent"), "outp": item.get("outp", "absent"), "log": None})


@st.composite
def strategy(draw: Any, tier: str) -> Any:
    """generated option lists x programs"""
    k = draw(st.integers(0, 19))
    if k < 3:
        enable: Optional[list] = None
    else:
        pool = NAMES + ["all", "default", "default", "none"]
        n = draw(st.integers(1, 4))
        enable = [draw(st.sampled_from(pool)) for _ in range(n)]
        if draw(st.integers(0, 9)) < 2:
            enable = [e.upper() if draw(st.booleans()) else e.capitalize() for e in enable]
        if draw(st.integers(0, 19)) == 0:
            enable.append(draw(st.sampled_from(["bogus", "cleanups", "math,inline", ""])))
    j = draw(st.integers(0, 9))
    if j < 5:
        src = draw(st.sampled_from(common.corpus_entries()))["src"]
    elif j < 8:
        src = draw(grammar.programs(max_stm=4))
    else:
        src = draw(st.sampled_from(FIXED))
    info = common.analyse(src)
    preds = sorted(info["voc"]) if info else []

    def pred_opt() -> Any:
        m = draw(st.integers(0, 11))
        if m < 4:
            return "absent"
        if m < 6:
            return "auto"
        if m < 7:
            return ""
        if m < 8:
            return None
        if m < 11 and preds:
            chosen = [p for p in preds if draw(st.booleans())] or preds[:1]
            if draw(st.integers(0, 9)) < 3:  # the same name with another arity, as a declaration may list it
                n0, a0 = chosen[0]
                chosen = chosen + [(n0, a0 + 1)] if draw(st.booleans()) else [(n0, a0 + 1)] + chosen
            sep = draw(st.sampled_from([",", ", ", " , "]))
            return sep.join(f"{draw(st.sampled_from(['', ' ']))}{n}/{a}" for n, a in chosen)
        return draw(st.sampled_from(["p", "p/x", "p/1/2", "p/1,,q/2", "/1"]))

    log = draw(st.sampled_from([None, None, "error", "WARNING", "Info", "debug", "DEBUG"]))
    return Case(src=src, origin="generated", instances=[], extra={"enable": enable, "inp": pred_opt(), "outp": pred_opt(), "log": log})


def argv_of(extra: dict) -> list:
    """command line for the case"""
    argv = []
    if extra.get("log") is not None:
        argv += ["--log", extra["log"]]
    for opt, key in (("--input-predicates", "inp"), ("--output-predicates", "outp")):
        val = extra.get(key)
        if val == "absent":
            continue
        if val is None:
            argv.append(opt)
        else:
            argv.append(f"{opt}={val}")
    if extra.get("enable") is not None:
        argv += ["--enable"] + list(extra["enable"])
    return argv


def evaluate(case: Case, tier: str) -> Outcome:
    """differential: subprocess vs API"""
    out = Outcome()
    extra = case.extra
    prg = oracle.try_parse(case.src)
    if prg is None:
        out.status, out.reason = "discard", "source_syntax"
        return out
    traits = expand(extra.get("enable"))
    inp, outp = parse_preds(extra.get("inp")), parse_preds(extra.get("outp"))
    valid = traits is not None and inp != "invalid" and outp != "invalid"
    expected = None
    if valid:
        try:
            in_preds = make_preds(inp, prg, "in")
            out_preds = make_preds(outp, prg, "out")
        except Exception:  # pylint: disable=broad-except
            out.status, out.reason = "discard", "autodetect_crash"
            return out
        opt = run_optimize(oracle.parse(case.src), in_preds, out_preds, [t for t in TRAITS if t in traits], 60.0, trace=False)
        if opt.status != "ok":
            out.status, out.reason = "discard", "optimize_" + opt.status
            return out
        expected = "".join(str(s) + "\n" for s in opt.result)
    argv = [sys.executable, "-m", "ngo"] + argv_of(extra)
    try:
        proc = subprocess.run(argv, input=case.src.encode(), capture_output=True, env=env.child_env("0"), timeout=300, check=False)
    except subprocess.TimeoutExpired:
        out.status, out.reason = "discard", "cli_timeout_inconclusive"
        return out
    stdout = proc.stdout.decode(errors="replace")
    out.labels.append("valid_options" if valid else "invalid_options")
    out.labels.append("enable:" + ("absent" if extra.get("enable") is None else "keywords" if any(e.lower() in ("all", "none", "default") for e in extra["enable"]) else "names"))
    out.labels.append("inp:" + ("list" if isinstance(inp, list) and inp else str(extra.get("inp")) if extra.get("inp") in ("absent", "auto", "", None) else "other"))
    out.labels.append("log:" + str(extra.get("log")))
    fail = None
    if valid:
        if proc.returncode != 0:
            fail = ("valid_options_rejected", f"exit {proc.returncode}: {proc.stderr.decode(errors='replace')[-600:]}")
        elif stdout != expected:
            fail = ("stdout_differs", _first_diff(expected or "", stdout))
    else:
        if proc.returncode == 0:
            fail = ("invalid_options_accepted", f"exit 0 for {argv_of(extra)}")
        elif stdout != "":
            fail = ("output_on_rejection", stdout[:300])
    if fail:
        out.status = "fail"
        out.failure = {"kind": fail[0], "detail": fail[1], "argv": argv_of(extra), "attribution": {"pass": "cli"}}
        return out
    if valid and extra.get("enable") is not None and traits:
        none = run_optimize(oracle.parse(case.src), in_preds, out_preds, [], 30.0, trace=False)
        if none.status == "ok" and "".join(str(s) + "\n" for s in none.result) != expected:
            out.nontrivial.append(case.config_key() + str(argv_of(extra)))
    return out


def _first_diff(a: str, b: str) -> str:
    la, lb = a.splitlines(), b.splitlines()
    for i, (x, y) in enumerate(zip(la, lb)):
        if x != y:
            return f"line {i + 1}: expected {x!r} got {y!r}"
    return f"expected {len(la)} lines, got {len(lb)}; extra: {(la[len(lb):] or lb[len(la):])[:3]}"


def sample(case: Case, out: Outcome) -> dict:
    """for the evidence"""
    return {"argv": argv_of(case.extra), "program": case.src, "labels": sorted(set(out.labels))}
