"""C11 - symmetry: ordered/counted joins fire exactly when the != joins fired."""

from ..gen import templates
from ..semantic import SemSpec
from . import common

TRAIT = "symmetry"

common.install(
    globals(),
    pid="C11",
    spec=SemSpec(pid="C11", proj="voc", costs=True, bijection=False, focus=TRAIT),
    rule=(
        "cases = symmetry templates (k>=2 atoms of one predicate joined under !=, <, >), the test corpus seeds of the pass and their AST mutants, free grammar; "
        "optimised with only symmetry=True under generated declarations (IN always contains every undefined predicate) and compared with the source "
        "on generated instances over IN: equal sets of (answer set on voc(P)+IN, cost per priority). "
        "non-trivial = the symmetry pass changed the program AND P+I has an answer set; distinct = distinct (program, configuration) hash."
    ),
    traits_fn=lambda draw: [TRAIT],
    corpus_sel=lambda: common.corpus_entries(),
    mutant_pool=lambda: common.corpus_entries(TRAIT),
    template=getattr(templates, "symmetry_program", None),
    mix=(3, 10, 7),
    budgets=(2400, 48000),
    decl="noauto",
    level_text="Exploration: generated programs aimed at the symmetry pass are optimised with that trait only and compared with the source under clingo on generated instances (answer sets, costs).",
)
