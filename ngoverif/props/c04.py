"""C04 - the result is a valid, safe clingo program and its printed form is faithful."""

from typing import Any

from clingo.ast import ASTType
from hypothesis import strategies as st

from .. import astutil, oracle
from ..core import Case, make_preds, run_optimize, sigs_of
from ..gen import config, rename, templates
from ..semantic import Outcome, attribute
from . import c01, common

PID = "C04"
LEVEL = "exploration"
TECHNIQUE = "property-based testing with a round-trip oracle (print/parse) and a differential oracle (AST route vs text route) under clingo"
LEVEL_TEXT = (
    "Exploration: for generated safe programs, trait subsets and declarations every returned statement is handed back to clingo both as AST (ProgramBuilder, the README's API path) "
    "and as printed text; both must ground without error on generated instances, the text must re-print identically after parsing, and both routes must have the same answer sets."
)
LEVEL_NOTE = "Trusted: clingo 5.8.2 (its parser, printer and safety check are the reference). Bounded programs and instances."
RULE = (
    "cases = as C01 (safe sources only, confirmed by clingo) with all trait subsets and declarations, plus sources whose variables are renamed to ngo's own hard-wired names "
    "(AUX, AUX0, X0, __NEXT, __PREV, P, N, B, X, L, G0.., none, unique). oracle, all four: (a) ProgramBuilder.add succeeds for every returned statement and the AST-loaded result grounds with each "
    "instance without error; (b) the printed text parses and grounds without error; (c) str(parse(str(s))) == str(s) statement by statement; (d) answer sets via AST == via text on the full vocabulary, with costs and counts. "
    "non-trivial = a pass fired AND the result contains a statement that is not in the trait-off normal form; distinct = distinct (program, configuration) hash."
)
ASSUMPTIONS = common.BASE_ASSUMPTIONS


SYNTH = [
    (templates.sum_chains_program, "sum_chains"), (templates.sum_chains_program, "sum_chains"), (templates.minmax_chains_program, "minmax_chains"), (templates.minmax_chains_program, "minmax_chains"),
    (templates.inline_program, "inline"), (templates.math_program, "math"), (templates.duplication_program, "duplication"), (templates.projection_program, "projection"),
    (templates.symmetry_program, "symmetry"), (templates.unused_program, "unused"), (templates.normalize_program, "cleanup"),
]


def budget(tier: str) -> int:
    """generated cases"""
    return 1400 if tier == "quick" else 24000


def corpus_items(tier: str) -> list:
    """whole valid corpus"""
    return common.corpus_entries()


@st.composite
def corpus_strategy(draw: Any, item: dict, tier: str) -> Any:
    """corpus program x traits x instances"""
    return common.build_case(draw, item["src"], f"corpus:{item['file']}:{item['idx']}", tier, c01.corpus_traits(draw, item), decl="free", count=3)


@st.composite
def strategy(draw: Any, tier: str) -> Any:
    """C01's generator, sometimes with adversarial variable names"""
    if draw(st.integers(0, 9)) < 5:
        # passes that synthesise terms, tuples and variables, with that pass enabled
        fn, trait = draw(st.sampled_from(SYNTH))
        src, name = fn(draw)
        traits = sorted(set(config.trait_subset(draw)) | {trait})
        case = common.build_case(draw, src, "template:" + name, tier, traits, decl="free", count=3)
    else:
        case = draw(c01.strategy(tier))
    if draw(st.integers(0, 9)) < 3:
        new = rename.rename_variables(draw, case.src)
        if new != case.src and oracle.grounds_guarded(new) == "ok":
            case.src = new
            case.origin += "+ngovars"
    case.instances = case.instances[:3]
    return case


def _roundtrip(stm: Any) -> Any:
    text = str(stm)
    prg = oracle.try_parse(text)
    if prg is None:
        return "unparsable", text
    rest = [s for s in prg if not (s.ast_type == ASTType.Program and s.name == "base" and not s.parameters)]
    if stm.ast_type == ASTType.Program and stm.name == "base" and not stm.parameters:
        rest = prg[:1]
    again = "\n".join(str(s) for s in rest)
    if again != text:
        return "reprint_differs", f"{text!r} -> {again!r}"
    return None


def evaluate(case: Case, tier: str) -> Outcome:
    """the four clauses"""
    out = Outcome()
    limit = oracle.LIMITS[tier]
    prg = oracle.try_parse(case.src)
    if prg is None:
        out.status, out.reason = "discard", "source_syntax"
        return out
    if astutil.gringo_scope_quirk(prg):
        out.status, out.reason = "discard", "gringo_scope_quirk"
        return out
    if astutil.may_ground_infinitely(prg) or oracle.grounds(case.src, "", case.consts).status != "ok":
        out.status, out.reason = "discard", "source_rejected"
        return out
    try:
        in_preds = make_preds(case.IN, prg, "in")
        out_preds = make_preds(case.OUT, prg, "out")
    except Exception:  # pylint: disable=broad-except
        out.status, out.reason = "discard", "autodetect_crash"
        return out
    opt = run_optimize(oracle.parse(case.src), in_preds, out_preds, case.traits, 30.0)
    out.opt = opt
    if opt.status != "ok":
        out.status, out.reason = "discard", "optimize_" + opt.status
        return out
    out.result_text = opt.text
    out.labels.append("traits:" + common.trait_class(case.traits))
    out.labels.append("decl:" + str(case.extra.get("decl")))
    for name in opt.trace.fired_names():
        out.labels.append("fired:" + name)
    io_sigs = sigs_of(in_preds) | sigs_of(out_preds)

    def fail(kind: str, detail: str, inst: str = "") -> Outcome:
        out.status = "fail"
        out.failure = {"kind": kind, "detail": detail, "instance": inst, "result_text": opt.text, "attribution": attribute(opt, inst, case.consts, io_sigs, True, False, limit) if kind in ("result_rejected", "ast_rejected") else _attr_syntactic(opt, kind)}
        return out

    # (c) print / parse round trip, statement by statement
    for stm in opt.result:
        bad = _roundtrip(stm)
        if bad:
            return fail(bad[0], bad[1])
    for inst in case.instances:
        a = oracle.solve(case.src, inst, case.consts, limit)
        if a.status != "ok":
            out.discards.append("source_" + a.status)
            continue
        pre = oracle.precondition_violated(a)
        if pre:
            out.discards.append(pre)
            continue
        # (b) text route
        t = oracle.solve(opt.text, inst, case.consts, 4 * limit)
        if t.status == "error":
            return fail("result_rejected", t.error_text(), inst)
        # (a) AST route
        b = oracle.solve(opt.result, inst, case.consts, 4 * limit)
        if b.status == "error":
            return fail("ast_rejected", b.error_text(), inst)
        if t.status != "ok" or b.status != "ok":
            out.discards.append("result_" + (t.status if t.status != "ok" else b.status))
            continue
        out.comparisons += 1
        # (d) same answer sets through both routes, full vocabulary, costs, counts
        diff = oracle.compare(t, b, None, True, True, True)
        if diff is not None:

            def again(alt: bool, inst: str = inst) -> bool:
                t2, b2 = oracle.solve(opt.text, inst, case.consts, 4 * limit, alt=alt), oracle.solve(opt.result, inst, case.consts, 4 * limit, alt=alt)
                return t2.status == "ok" and b2.status == "ok" and oracle.compare(t2, b2, None, True, True, True) is not None

            if not oracle.confirmed(again):
                out.discards.append("solver_configurations_disagree")
                continue
            return fail("ast_text_differ", diff.detail, inst)
    if out.comparisons == 0 and out.discards:
        out.status, out.reason = "discard", "all_instances:" + out.discards[0]
        return out
    if opt.trace.fired_names():
        none = run_optimize(oracle.parse(case.src), in_preds, out_preds, [], 30.0, trace=False)
        normal = set(str(s) for s in (none.result or []))
        if any(str(s) not in normal for s in opt.result):
            out.nontrivial.append(case.config_key())
    return out


def _attr_syntactic(opt: Any, kind: str) -> dict:
    """first pass application whose output contains a statement that does not survive print/parse (or AST vs text)"""
    for idx, step in enumerate(opt.trace.steps):
        if not step.fired:
            continue
        if oracle.try_parse(step.after) is None:
            return {"step": idx, "pass": step.name, "before": step.before, "after": step.after, "how": "unparsable"}
    return {"step": -1, "pass": "unattributed", "before": "", "after": "", "how": kind}


sample = common.sample
