"""C08 - cleanup deletes only literals and rules that cannot matter."""

from ..gen import templates
from ..semantic import SemSpec
from . import common

common.install(
    globals(),
    pid="C08",
    spec=SemSpec(pid="C08", proj="voc", costs=True, bijection=True, focus="cleanup"),
    rule=(
        "cases = cleanup templates (heads implying body atoms over several defining rules / head kinds, implication chains, "
        "users with implied and non-implied literals, #true/#false), test_cleanup corpus seeds and their AST mutants, free grammar; "
        "optimised with only cleanup=True under generated IN (always containing the undefined predicates, sometimes defined ones) and "
        "compared with the source on generated instances over IN: equal sets of (answer set on voc(P), costs), equal counts. "
        "non-trivial = the cleanup pass changed the program AND P+I has an answer set; distinct = distinct (program, config) hash."
    ),
    traits_fn=lambda draw: ["cleanup"],
    corpus_sel=lambda: common.corpus_entries(),
    mutant_pool=lambda: common.corpus_entries("cleanup"),
    template=templates.cleanup_program,
    mix=(4, 10, 6),
    budgets=(3200, 32000),
    decl="noauto",
    level_text="Exploration: generated programs aimed at cleanup's implication reasoning are optimised with cleanup only and compared with the source under clingo on generated instances (whole vocabulary, costs, counts).",
)
