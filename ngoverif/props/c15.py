"""C15 - inline: unfolding an aggregate-defining rule into its one user keeps values."""

from ..gen import templates
from ..semantic import SemSpec
from . import common

TRAIT = "inline"

common.install(
    globals(),
    pid="C15",
    spec=SemSpec(pid="C15", proj="inout", costs=True, bijection=False, focus=TRAIT),
    rule=(
        "cases = inline templates (helper(V,S) :- body, S = #agg{..} used once in an aggregate element, body or objective), the test corpus seeds of the pass and their AST mutants, free grammar; "
        "optimised with only inline=True under generated declarations (IN always contains every undefined predicate) and compared with the source "
        "on generated instances over IN: equal sets of (answer set on IN+OUT, cost per priority). "
        "non-trivial = the inline pass changed the program AND P+I has an answer set; distinct = distinct (program, configuration) hash."
    ),
    traits_fn=lambda draw: [TRAIT],
    corpus_sel=lambda: common.corpus_entries(),
    mutant_pool=lambda: common.corpus_entries(TRAIT),
    template=getattr(templates, "inline_program", None),
    mix=(3, 10, 7),
    budgets=(2400, 48000),
    decl="free",
    level_text="Exploration: generated programs aimed at the inline pass are optimised with that trait only and compared with the source under clingo on generated instances (answer sets, costs).",
)
