"""C12 - minmax_chains: chains compute the same #min/#max, including the empty case."""

from ..gen import templates
from ..semantic import SemSpec
from . import common

TRAIT = "minmax_chains"

common.install(
    globals(),
    pid="C12",
    spec=SemSpec(pid="C12", proj="voc", costs=True, bijection=False, focus=TRAIT),
    rule=(
        "cases = minmax_chains templates (#min/#max assignments and bounds, results used in sums and objectives), the test corpus seeds of the pass and their AST mutants, free grammar; "
        "optimised with only minmax_chains=True under generated declarations (IN always contains every undefined predicate) and compared with the source "
        "on generated instances over IN: equal sets of (answer set on voc(P)+IN, cost per priority). "
        "non-trivial = the minmax_chains pass changed the program AND P+I has an answer set; distinct = distinct (program, configuration) hash."
    ),
    traits_fn=lambda draw: [TRAIT],
    corpus_sel=lambda: common.corpus_entries(),
    mutant_pool=lambda: common.corpus_entries(TRAIT),
    template=getattr(templates, "minmax_chains_program", None),
    mix=(3, 13, 4),
    budgets=(2400, 48000),
    decl="noauto",
    level_text="Exploration: generated programs aimed at the minmax_chains pass are optimised with that trait only and compared with the source under clingo on generated instances (answer sets, costs).",
)
