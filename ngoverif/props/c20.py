"""C20 - generated domain and order predicates describe the real domain."""

import re
from typing import Any, Optional

from hypothesis import strategies as st

from .. import astutil, oracle
from ..core import Case, make_preds, reset_ngo_state, run_optimize, sigs_of, time_limit, Timeout
from ..gen import grammar, mutate, templates
from ..semantic import Outcome
from . import common

PID = "C20"
LEVEL = "exploration"
TECHNIQUE = "property-based testing with an invariant oracle over clingo's answer sets (over-approximation, choice-independence, exact min/max/successor per group)"
LEVEL_TEXT = (
    "Exploration: the domain, minimum, maximum and successor rules ngo generates are grounded and solved together with the program on generated instances; in every answer set the domain predicate must contain the predicate it approximates, "
    "all auxiliary extensions must be identical across the answer sets of an instance, and min/max/next must be exactly the extremes and the covering relation of the sorted domain values per group (clingo's own term order)."
)
LEVEL_NOTE = "Two routes: the DomainPredicates API (roles of the auxiliary predicates given by the API, as tests/test_dependency.py uses it) and end-to-end through symmetry/minmax_chains/sum_chains (roles recovered from the documented name shapes). Trusted: clingo 5.8.2."
RULE = (
    "cases = programs whose predicates are defined by choice rules, head aggregates, disjunctions, recursion, negation, several rules, conditions and intervals (dependency/symmetry/minmax/sum corpus slices, chain templates, mutants, grammar) with instances having gaps, several groups and non-static conditions. "
    "API route: for every non-static predicate with a domain, create_domain + create_next_pred_for_annotated_pred for generated annotated positions are appended to the program. End-to-end route: optimize with symmetry+minmax_chains+sum_chains and auxiliaries located by __dom_<p>, __min_/__max_/__next_<positions>_<pos>__dom_<p>. "
    "oracle on every answer set: p(t) implies dom_p(t); dom/min/max/next identical in all answer sets of the instance; per group min/max are least/greatest and next is exactly the successor relation of the sorted distinct dom values. "
    "non-trivial = some group has >= 3 distinct values AND (>= 2 groups or >= 2 answer sets); distinct = distinct (program, configuration) hash."
)
ASSUMPTIONS = common.BASE_ASSUMPTIONS
NAME_RE = re.compile(r"^__(min|max|next)_(\d+(?:_\d+)*)_(\d+)(__dom_\w+)$")


def budget(tier: str) -> int:
    """generated cases"""
    return 2000 if tier == "quick" else 40000


def corpus_items(tier: str) -> list:
    """dependency + chain trait slices"""
    return common.corpus_entries(files=["test_dependency.py", "test_symmetry.py", "test_minmax_aggregates.py", "test_sum_aggregates.py", "test_regression.py"])


def _case(draw: Any, src: str, origin: str, tier: str) -> Case:
    case = common.build_case(draw, src, origin, tier, ["symmetry", "minmax_chains", "sum_chains"], decl="noauto", count=4)
    case.extra["picks"] = [draw(st.integers(0, 1000)) for _ in range(8)]
    case.extra["route"] = draw(st.sampled_from(["api", "api", "e2e"]))
    return case


@st.composite
def corpus_strategy(draw: Any, item: dict, tier: str) -> Any:
    """corpus"""
    return _case(draw, item["src"], f"corpus:{item['file']}:{item['idx']}", tier)


def chain_template(draw: Any) -> tuple:
    """one of the chain-emitting templates"""
    fn = draw(st.sampled_from([templates.dependency_program, templates.dependency_program, templates.dependency_program, templates.symmetry_program, templates.minmax_chains_program, templates.sum_chains_program, templates.cleanup_program, templates.unused_program]))
    return fn(draw)


@st.composite
def strategy(draw: Any, tier: str) -> Any:
    """generated"""
    k = draw(st.integers(0, 19))
    if k < 5:
        return _case(draw, draw(grammar.programs(objectives=False)), "grammar", tier)
    if k < 13:
        src, name = chain_template(draw)
        src, shuffled = common.shuffle_statements(draw, src, 40)
        return _case(draw, src, "template:" + name + ("+shuffled" if shuffled else ""), tier)
    item = draw(st.sampled_from(corpus_items(tier)))
    src, _ = mutate.mutant(draw, item["src"])
    return _case(draw, src, "mutant:" + item["file"], tier)


def _ext(model: Any, sig: tuple) -> set:
    return {tuple(a.arguments) for a in model.atoms if a.name == sig[0] and len(a.arguments) == sig[1]}


def _check_roles(models: list, roles: list, out: Outcome) -> Optional[tuple]:
    """roles: dicts with p (optional), dom, arity, positions, at, min, max, next"""
    nontrivial = False
    for role in roles:
        exts = []
        for m in models:
            dom = _ext(m, role["dom"])
            if role.get("p"):
                missing = _ext(m, role["p"]) - dom
                if missing:
                    return "not_overapproximation", f"{role['p']} has {sorted(map(str, list(missing)[:3]))} outside {role['dom']}"
            groups: dict = {}
            gpos = [i for i in range(role["arity"]) if i not in role["positions"]]
            for t in dom:
                groups.setdefault(tuple(t[i] for i in gpos), set()).add(t[role["at"]])
            cur = [frozenset(dom)]
            if role.get("min"):
                mn = _ext(m, role["min"])
                want = {g + (min(v),) for g, v in groups.items()}
                cur.append(frozenset(mn))
                if mn != want:
                    return "min_wrong", f"{role['min']}: got {sorted(map(str, mn))[:4]} expected {sorted(map(str, want))[:4]}"
            if role.get("max"):
                mx = _ext(m, role["max"])
                want = {g + (max(v),) for g, v in groups.items()}
                cur.append(frozenset(mx))
                if mx != want:
                    return "max_wrong", f"{role['max']}: got {sorted(map(str, mx))[:4]} expected {sorted(map(str, want))[:4]}"
            if role.get("next"):
                nx = _ext(m, role["next"])
                want = set()
                for g, v in groups.items():
                    sv = sorted(v)
                    for a, b in zip(sv, sv[1:]):
                        want.add(g + (a, b))
                cur.append(frozenset(nx))
                if nx != want:
                    return "next_wrong", f"{role['next']}: got {sorted(map(str, nx))[:4]} expected {sorted(map(str, want))[:4]}"
            exts.append(tuple(cur))
            if any(len(v) >= 3 for v in groups.values()) and (len(groups) >= 2 or len(models) >= 2):
                nontrivial = True
        if len(set(exts)) > 1:
            return "choice_dependent", f"extensions of {role['dom']} (or its min/max/next) differ between answer sets"
    if nontrivial:
        out.nontrivial_instances += 1
    return None


def _api_roles(prg_text: str, in_preds: list, picks: list) -> Optional[tuple[str, list]]:
    from ngo.dependency import DomainPredicates  # pylint: disable=import-outside-toplevel
    from ngo.normalize import preprocess  # pylint: disable=import-outside-toplevel
    from ngo.utils.ast import AnnotatedPredicate, Predicate  # pylint: disable=import-outside-toplevel
    from ngo.utils.globals import UniqueNames  # pylint: disable=import-outside-toplevel

    prg = preprocess(oracle.parse(prg_text))
    dp = DomainPredicates(UniqueNames(prg, in_preds), prg)
    extra: list = []
    roles = []
    derived = sorted(astutil.defined(prg))
    for idx, (name, arity) in enumerate(derived):
        p = Predicate(name, arity)
        if arity == 0 or dp.is_static(p) or not dp.has_domain(p):
            continue
        extra += list(dp.create_domain(p))
        dom = dp.domain_predicate(p)
        pick = picks[idx % len(picks)]
        k = 1 + pick % arity
        pos = tuple(sorted({(pick // 7 + j * (1 + pick % 3)) % arity for j in range(k)}))
        at = pos[(pick // 3) % len(pos)]
        ap = AnnotatedPredicate(p, pos)
        extra += list(dp.create_next_pred_for_annotated_pred(ap, at))
        mn, mx, nx = dp.min_anon_predicate(ap, at), dp.max_anon_predicate(ap, at), dp.next_anon_predicate(ap, at)
        roles.append({"p": (name, arity), "dom": (dom.name, dom.arity), "arity": arity, "positions": list(pos), "at": at, "min": (mn.name, mn.arity), "max": (mx.name, mx.arity), "next": (nx.name, nx.arity)})
    if not roles:
        return None
    return "\n".join(str(s) for s in list(prg) + extra), roles


def _e2e_roles(result_text: str, src_voc: set) -> list:
    res = oracle.try_parse(result_text) or []
    defined = astutil.defined(res)
    roles = []
    doms = {}
    for name, arity in sorted(defined):
        if name.startswith("__dom_") and (name, arity) not in src_voc:
            base = name[len("__dom_"):]
            p = (base, arity) if (base, arity) in src_voc else None
            doms[(name, arity)] = p
    used = set()
    for name, arity in sorted(defined):
        m = NAME_RE.match(name)
        if not m or (name, arity) in src_voc:
            continue
        kind, positions, at, domname = m.group(1), [int(x) for x in m.group(2).split("_")], int(m.group(3)), m.group(4)
        cands = [d for d in doms if d[0] == domname]
        if len(cands) != 1:
            continue
        dom = cands[0]
        expect = dom[1] - len(positions) + (2 if kind == "next" else 1)
        if arity != expect or at not in positions:
            continue
        key = (dom, tuple(positions), at)
        role = next((r for r in roles if r["key"] == key), None)
        if role is None:
            role = {"key": key, "p": doms[dom], "dom": dom, "arity": dom[1], "positions": positions, "at": at}
            roles.append(role)
        role[kind] = (name, arity)
        used.add(dom)
    for dom, p in doms.items():
        if dom not in used and p is not None:
            roles.append({"key": (dom,), "p": p, "dom": dom, "arity": dom[1], "positions": list(range(dom[1])), "at": 0})
    return roles


def evaluate(case: Case, tier: str) -> Outcome:
    """invariants over answer sets"""
    out = Outcome()
    limit = 400 if tier == "quick" else 1500
    prg = oracle.try_parse(case.src)
    if prg is None:
        out.status, out.reason = "discard", "source_syntax"
        return out
    if astutil.may_ground_infinitely(prg) or oracle.grounds(case.src, "", case.consts).status != "ok":
        out.status, out.reason = "discard", "source_rejected"
        return out
    in_preds = make_preds(case.IN, prg, "in")
    route = case.extra.get("route", "api")
    out.labels.append("route:" + route)
    if route == "api":
        reset_ngo_state()
        try:
            with time_limit(20.0):
                built = _api_roles(case.src, in_preds, case.extra.get("picks", [0]))
        except Timeout:
            out.status, out.reason = "discard", "api_timeout"
            return out
        except Exception as exc:  # pylint: disable=broad-except
            out.status, out.reason = "discard", "api_crash:" + type(exc).__name__
            return out
        if built is None:
            out.status, out.reason = "discard", "no_nonstatic_domain"
            return out
        text, roles = built
    else:
        opt = run_optimize(oracle.parse(case.src), in_preds, make_preds(case.OUT, prg, "out"), case.traits, 30.0)
        if opt.status != "ok":
            out.status, out.reason = "discard", "optimize_" + opt.status
            return out
        text = opt.text
        roles = _e2e_roles(text, astutil.vocabulary(prg))
        if not roles:
            out.status, out.reason = "discard", "no_auxiliary_domain"
            return out
    out.result_text = text
    for inst in case.instances:
        a = oracle.solve(case.src, inst, case.consts, limit)
        if a.status != "ok" or oracle.precondition_violated(a):
            out.discards.append("source_" + (a.status if a.status != "ok" else "precondition"))
            continue
        b = oracle.solve(text, inst, case.consts, 4 * limit)
        if b.status != "ok":
            out.discards.append("extended_" + b.status)
            continue
        if not b.models:
            out.discards.append("unsat")
            continue
        out.comparisons += 1
        bad = _check_roles(b.models, roles, out)
        if bad:

            def again(alt: bool, inst: str = inst) -> bool:
                b2 = oracle.solve(text, inst, case.consts, 4 * limit, alt=alt)
                return b2.status == "ok" and bool(b2.models) and _check_roles(b2.models, roles, Outcome()) is not None

            if not oracle.confirmed(again):
                out.discards.append("solver_configurations_disagree")
                continue
            out.status = "fail"
            out.failure = {"kind": bad[0], "detail": bad[1], "instance": inst, "route": route, "roles": [{k: v for k, v in r.items() if k != "key"} for r in roles], "attribution": {"pass": "dependency:" + route, "before": case.src, "after": text}}
            return out
    if out.comparisons == 0:
        out.status, out.reason = "discard", "all_instances:" + (out.discards[0] if out.discards else "none")
    elif out.nontrivial_instances:
        out.nontrivial.append(case.config_key() + route)
    return out


sample = common.sample
