"""C01 - optimised program has the same answer sets on the output predicates (all traits, all declarations)."""

from typing import Any, Callable

from hypothesis import strategies as st

from ..env import DEFAULT_TRAITS, TRAITS
from ..gen import config, templates
from ..semantic import SemSpec
from . import common

ALL_TEMPLATES = [
    templates.cleanup_program,
    templates.unused_program,
    templates.duplication_program,
    templates.symmetry_program,
    templates.minmax_chains_program,
    templates.sum_chains_program,
    templates.math_program,
    templates.inline_program,
    templates.projection_program,
    templates.normalize_program,
    templates.dependency_program,
]


def any_template(draw: Callable) -> tuple:
    """one or two pass-shaped templates in one program (auxiliary families coexist)"""
    fn = draw(st.sampled_from(ALL_TEMPLATES))
    src, name = fn(draw)
    if draw(st.integers(0, 9)) < 3:
        fn2 = draw(st.sampled_from(ALL_TEMPLATES))
        src2, name2 = fn2(draw)
        src, name = src + "\n" + src2, name + "&" + name2
    src, shuffled = common.shuffle_statements(draw, src)
    return src, name + ("+shuffled" if shuffled else "")


def corpus_traits(draw: Any, item: dict) -> list:
    """corpus sweep: default / all, sometimes a random subset"""
    k = draw(st.integers(0, 9))
    if k < 4:
        return list(DEFAULT_TRAITS)
    if k < 6:
        return list(TRAITS)
    if k < 8:
        return [t for t in DEFAULT_TRAITS if t != "math"]
    return config.trait_subset_light(draw)


common.install(
    globals(),
    pid="C01",
    spec=SemSpec(pid="C01", proj="out", costs=False, bijection=False, rejected_is_violation=True),
    rule=(
        "cases = (program, IN, OUT incl. auto, trait subset of the 2^9, #const overrides, k instances over IN) from the whole valid test corpus, "
        "pass-shaped templates (one or two families per program), AST mutants of corpus seeds and the free grammar; optimize runs once per case and the "
        "result is compared with the source under clingo on every instance: equal sets of answer sets restricted to OUT (with OUT auto-detected also the "
        "terms displayed by #show statements); satisfiability is the special case of an empty projection; a result rejected by clingo is a violation. "
        "non-trivial = at least one pass application changed the program (trace: output != input) AND P+I has an answer set; distinct = distinct (program, configuration) hash."
    ),
    traits_fn=config.trait_subset_light,
    corpus_sel=lambda: common.corpus_entries(),
    corpus_traits=corpus_traits,
    template=any_template,
    mix=(4, 9, 7),
    budgets=(4000, 40000),
    decl="free",
    level_text="Exploration: end-to-end differential testing of optimize over generated programs, declarations, trait subsets and instances against clingo, projected on the output predicates.",
)
