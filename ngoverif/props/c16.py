"""C16 - projection: a split rule derives exactly what the unsplit rule derived."""

from ..gen import templates
from ..semantic import SemSpec
from . import common

TRAIT = "projection"

common.install(
    globals(),
    pid="C16",
    spec=SemSpec(pid="C16", proj="voc", costs=True, bijection=True, focus=TRAIT, rejected_is_violation=True),
    rule=(
        "cases = projection templates (bodies of 3+ literals with variables local to a part), the test corpus seeds of the pass and their AST mutants, free grammar; "
        "optimised with only projection=True under generated declarations (IN always contains every undefined predicate) and compared with the source "
        "on generated instances over IN: equal sets of (answer set on voc(P)+IN, cost per priority), equal counts (bijection). "
        "non-trivial = the projection pass changed the program AND P+I has an answer set; distinct = distinct (program, configuration) hash."
    ),
    traits_fn=lambda draw: [TRAIT],
    corpus_sel=lambda: common.corpus_entries(),
    mutant_pool=lambda: common.corpus_entries(TRAIT),
    template=getattr(templates, "projection_program", None),
    mix=(3, 10, 7),
    budgets=(2400, 48000),
    decl="noauto",
    level_text="Exploration: generated programs aimed at the projection pass are optimised with that trait only and compared with the source under clingo on generated instances (answer sets, costs, counts).",
)
