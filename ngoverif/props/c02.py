"""C02 - optimisation statements keep the cost of every answer set."""

from typing import Any, Callable

from hypothesis import strategies as st

from ..gen import config, templates
from ..semantic import SemSpec
from . import c01, common

OBJ_TEMPLATES = [
    templates.minmax_chains_program, templates.minmax_chains_program, templates.minmax_chains_program,
    templates.sum_chains_program, templates.sum_chains_program, templates.sum_chains_program,
    templates.inline_program, templates.inline_program,
    templates.math_program, templates.symmetry_program, templates.unused_program, templates.normalize_program, templates.duplication_program,
]
EXTRA_OBJECTIVES = [
    ":~ sk(P,I,V). [V@1,P,I]", "#minimize{ V@2,P : sk(P,_,V) }.", ":~ sh(D,L). [-L@0,D]", "#maximize{ 1@1,D : sh(D,_) }.", ":~ pr(A,Y). [Y@1,A]",
    ":~ bonus(D,L). [L@0,D]", ":~ bonus(D,L). [L@1,D]", "#minimize{ L,D : late(D,L) }.", ":~ late(D,L). [-L@0,D]", "#minimize{ W,P : other(P,W) }.", ":~ other(P,W). [W@1,P]", ":~ oth(V,F). [F@1,V]",
    ":~ q(X,Y). [X@Y]", ":~ p(X). [X@0,X]", "#minimize{ X+Y@1,X : q(X,Y) }.", ":~ q(X,Y), not p(X). [-1@2,X,Y]", ":~ p(X). [1@1]", ":~ p(X). [1@1,X]",
]


def objective_template(draw: Callable) -> tuple:
    """templates whose consumers are objectives, plus extra objective statements (shared priorities, colliding tuples, negative weights)"""
    fn = draw(st.sampled_from(OBJ_TEMPLATES))
    src, name = fn(draw)
    extra = [draw(st.sampled_from(EXTRA_OBJECTIVES)) for _ in range(draw(st.integers(0 if "~" in src or "imize" in src else 1, 2)))]
    return src + ("\n" + "\n".join(extra) if extra else ""), name + ("+extraobj" if extra else "")


common.install(
    globals(),
    pid="C02",
    spec=SemSpec(pid="C02", proj="out", costs=True, bijection=False, rejected_is_violation=False, need_cost=True),
    rule=(
        "cases = programs containing >= 1 #minimize/#maximize/weak constraint: the objective slice of the corpus, templates whose min/max/sum/count results are "
        "consumed by objectives plus extra objective statements (shared/distinct priorities, colliding tuples, negative weights), mutants, grammar; all trait subsets and declarations. "
        "oracle: {(answer set on OUT, cost per priority with zero levels dropped)} equal between source and result for every instance (clingo --opt-mode=enum reports the cost of every model). "
        "non-trivial = a pass changed the program AND some answer set of P+I has a non-zero cost; distinct = distinct (program, configuration) hash."
    ),
    traits_fn=config.trait_subset_light,
    corpus_sel=lambda: common.corpus_entries(objective=True),
    corpus_traits=c01.corpus_traits,
    template=objective_template,
    mix=(3, 10, 7),
    budgets=(2000, 24000),
    decl="free",
    level_text="Exploration: differential testing of optimize on programs with objectives; the cost vector of every answer set (per priority) is compared with the source under clingo.",
)

_install_evaluate = evaluate  # type: ignore  # noqa: F821  pylint: disable=undefined-variable


def evaluate(case: Any, tier: str):  # type: ignore  # pylint: disable=function-redefined
    """programs without an objective are outside C02's domain"""
    from ..semantic import Outcome  # pylint: disable=import-outside-toplevel

    if ":~" not in case.src and "imize" not in case.src:
        return Outcome(status="discard", reason="no_objective")
    return _install_evaluate(case, tier)
