"""C18 - auto-detected input/output predicates are exactly the open and the shown ones."""

from typing import Any

from clingo.ast import ASTType
from hypothesis import strategies as st

from .. import astutil, oracle
from ..core import Case
from ..gen import grammar, mutate, robust
from ..semantic import Outcome
from . import c01, common

PID = "C18"
LEVEL = "exploration"
TECHNIQUE = "property-based testing against an independent reference implementation (generic AST walk) of the three clauses"
LEVEL_TEXT = (
    "Exploration: auto_detect_input/auto_detect_output are compared on generated programs with a reference written independently of ngo's per-node-kind collectors "
    "(one generic recursive walk over AST.child_keys), checking exactly the three clauses of the property."
)
LEVEL_NOTE = "Trusted: clingo's parser/AST; the reference walk. Programs with theory atoms or classical negation are outside the listed domain and are not generated."
RULE = (
    "cases = parsed programs from the free grammar, all pass templates, corpus seeds, mutants, extended with statements of every node kind the property lists (bodies, conditions, body/head aggregate elements, disjunctions, choice elements, objectives, all signs, #show p/n, #show t : cond, #show.). "
    "oracle: U = {p in a rule/objective, never a positive head atom} must be a subset of auto_detect_input(P); every p with a defining statement that does not mention p in its body or head conditions must be absent from it; "
    "set(auto_detect_output(P)) must equal the #show signatures plus the predicates in #show term conditions. non-trivial = the program has at least one undefined predicate, one derived predicate and one #show statement or self-defined predicate; "
    "distinct = distinct program text."
)
ASSUMPTIONS = ["theory atoms and classically negated atoms are outside the property's domain", "programs need only parse (safety is irrelevant for a syntactic property)"]
BANNED = ("&", "-neg", "#theory")


def budget(tier: str) -> int:
    """generated cases"""
    return 16000 if tier == "quick" else 320000


def corpus_items(tier: str) -> list:
    """every corpus program that parses"""
    from ..gen import corpus  # pylint: disable=import-outside-toplevel

    return [{"file": e["file"], "idx": e["idx"], "src": e["src"]} for e in corpus.load() if e["parses"]]


@st.composite
def corpus_strategy(draw: Any, item: dict, tier: str) -> Any:
    """corpus program"""
    draw(st.integers(0, 1000))
    return Case(src=item["src"], origin=f"corpus:{item['file']}", instances=[])


@st.composite
def strategy(draw: Any, tier: str) -> Any:
    """programs over every listed node kind"""
    k = draw(st.integers(0, 19))
    if k < 9:
        src, origin = draw(grammar.programs(max_stm=5)), "grammar"
    elif k < 15:
        src, name = c01.any_template(draw)
        origin = "template"
    else:
        item = draw(st.sampled_from(corpus_items(tier)))
        src, _ = mutate.M(draw).mutate(item["src"], 3)
        origin = "mutant"
    if draw(st.integers(0, 9)) < 6:
        ex, _ = robust.extras(draw, 3)
        ex = [e for e in ex if not any(b in e for b in BANNED)]
        src = src + "\n" + "\n".join(ex)
    return Case(src=src, origin=origin, instances=[])


def reference(prg: list) -> tuple[set, set, set, set]:
    """(U, excluded, out, selfdefined) by the generic walk"""
    occurs: set = set()
    poshead: set = set()
    excluded: set = set()
    selfdef: set = set()
    for s in prg:
        if s.ast_type == ASTType.Rule:
            occurs.update(astutil.atoms_in(s))
            heads = {sig for sig, _ in astutil.positive_heads(s)}
            poshead.update(heads)
            body: set = set()
            for b in s.body:
                body.update(astutil.atoms_in(b))
            for n in astutil.walk(s.head):
                if n.ast_type == ASTType.ConditionalLiteral:
                    for c in n.condition:
                        body.update(astutil.atoms_in(c))
                elif n.ast_type == ASTType.HeadAggregateElement:
                    for c in n.condition.condition:
                        body.update(astutil.atoms_in(c))
            for p in heads:
                if p not in body:
                    excluded.add(p)
                else:
                    selfdef.add(p)
        elif s.ast_type == ASTType.Minimize:
            occurs.update(astutil.atoms_in(s))
    out: set = set()
    for s in prg:
        if s.ast_type == ASTType.ShowSignature:
            if s.name:  # "#show." names no predicate
                out.add((s.name, s.arity))
        elif s.ast_type == ASTType.ShowTerm:
            for b in s.body:
                out.update(astutil.atoms_in(b))
    return occurs - poshead, excluded, out, selfdef


def evaluate(case: Case, tier: str) -> Outcome:
    """three clauses"""
    from ngo import auto_detect_input, auto_detect_output  # pylint: disable=import-outside-toplevel

    out = Outcome()
    prg = oracle.try_parse(case.src)
    if prg is None:
        out.status, out.reason = "discard", "source_syntax"
        return out
    types = set()
    for s in prg:
        types |= astutil.node_types(s)
    if "TheoryAtom" in types or any(n.ast_type == ASTType.SymbolicAtom and n.symbol.ast_type != ASTType.Function and n.symbol.ast_type != ASTType.Pool for s in prg for n in astutil.walk(s)):
        out.status, out.reason = "discard", "outside_domain"
        return out
    U, excluded, shown, selfdef = reference(prg)
    try:
        ai = {(p.name, p.arity) for p in auto_detect_input(prg)}
        ao_list = [(p.name, p.arity) for p in auto_detect_output(prg)]
    except Exception as exc:  # pylint: disable=broad-except
        from ..core import crash_bucket  # pylint: disable=import-outside-toplevel

        bucket, tb = crash_bucket(exc)
        out.status = "fail"
        out.failure = {"kind": "crash", "bucket": bucket, "detail": tb, "attribution": {"pass": "auto_detect"}}
        return out
    ao = set(ao_list)
    fail = None
    if not U <= ai:
        fail = ("open_predicate_missed", f"{sorted(U - ai)} occur in rules/objectives, are never a positive head atom, but are not reported as input")
    elif ai & excluded:
        fail = ("derived_predicate_reported", f"{sorted(ai & excluded)} have a defining statement that does not use them, but are reported as input")
    elif ao != shown:
        fail = ("output_mismatch", f"auto_detect_output={sorted(ao)} but #show names {sorted(shown)}")
    for t in sorted(types & {"ShowSignature", "ShowTerm", "HeadAggregate", "Disjunction", "Minimize", "ConditionalLiteral", "BodyAggregate", "Aggregate"}):
        out.labels.append("kind:" + t.lower())
    if fail:
        out.status = "fail"
        out.failure = {"kind": fail[0], "detail": fail[1], "instance": "", "attribution": {"pass": "auto_detect"}}
        return out
    if U and excluded and (shown or selfdef):
        out.nontrivial.append(case.config_key())
    return out


def sample(case: Case, out: Outcome) -> dict:
    """for the evidence"""
    prg = oracle.try_parse(case.src) or []
    U, excluded, shown, selfdef = reference(prg)
    return {"program": case.src, "U": sorted(U), "excluded": sorted(excluded), "shown": sorted(shown), "self_defined": sorted(selfdef)}
