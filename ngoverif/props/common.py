"""Shared building blocks for the property modules."""

from typing import Any, Callable, Optional

from hypothesis import strategies as st

from .. import astutil, oracle
from ..core import Case
from ..gen import config, corpus, grammar
from ..semantic import Outcome, SemSpec
from ..semantic import evaluate as sem_evaluate

INSTANCES = {"quick": 5, "thorough": 8}
GRAMMAR_SORTS = {n: s for n, s in grammar.PREDS}

BASE_ASSUMPTIONS = [
    "clingo 5.8.2 (parser, grounder, solver) is the trusted reference semantics",
    "programs and instances are bounded (<= ~8 statements generated, <= 12 facts per instance, values near the program's constants); nothing is claimed outside these bounds",
    "cases whose source is rejected by clingo, may ground infinitely, reports undefined operations / ignored tuples, or has more answer sets than the limit are discarded and counted, not passed",
    "open known findings (known_findings.json) suppress only failures matching their narrow trigger; they are counted in known_hits",
]


def analyse(src: str) -> Optional[dict]:
    """syntactic facts about a program (independent walker)"""
    prg = oracle.try_parse(src)
    if prg is None:
        return None
    return {
        "prg": prg,
        "undefined": astutil.undefined(prg),
        "defined": astutil.defined(prg),
        "voc": astutil.vocabulary(prg),
    }


def build_case(
    draw: Callable,
    src: str,
    origin: str,
    tier: str,
    traits: list,
    decl: str = "free",  # free | empty | explicit_voc | noauto
    facts_over: str = "in",  # in | any
    sorts: Optional[dict] = None,
    count: Optional[int] = None,
) -> Case:
    """attach declarations, constants and instances to a program"""
    info = analyse(src)
    if info is None:
        return Case(src=src, IN=[], OUT=[], traits=traits, origin=origin)
    und, dfn, voc = info["undefined"], info["defined"], info["voc"]
    label = decl
    if decl == "empty":
        IN: Any = []
        OUT: Any = []
    elif decl == "explicit_voc":
        IN = [list(s) for s in sorted(und)]
        OUT = [list(s) for s in sorted(voc)]
    else:
        IN, OUT, label = config.declarations(draw, und, dfn, voc, allow_auto=(decl == "free"))
    if facts_over == "any":
        fact_sigs = set(voc)
        if draw(st.integers(0, 9)) < 5:
            # keep most predicates fact-free so that rules, not facts, decide
            fact_sigs = {s for s in sorted(voc) if draw(st.integers(0, 9)) < 5} | und
    elif IN == "auto":
        fact_sigs = set(und)
    else:
        fact_sigs = {tuple(s) for s in IN}
    n = count or INSTANCES[tier]
    insts, labels = config.instances(draw, sorted(fact_sigs), src, n, sorts)
    consts = config.const_overrides(draw, src)
    return Case(
        src=src,
        IN=IN,
        OUT=OUT,
        traits=list(traits),
        consts=consts,
        instances=insts,
        origin=origin,
        extra={"decl": label, "inst_classes": labels, "fact_sigs": [list(s) for s in sorted(fact_sigs)]},
    )


def shuffle_statements(draw: Callable, src: str, percent: int = 30) -> tuple[str, bool]:
    """permute the source lines of a program (use before definition, consumers before producers):
    the meaning of a logic program does not depend on statement order, ngo's analyses might"""
    lines = [ln for ln in src.split("\n") if ln.strip()]
    if len(lines) < 2 or draw(st.integers(0, 99)) >= percent:
        return src, False
    if any(ln.lstrip().startswith(("#program", "#theory", "&", "%")) or ln.rstrip().endswith(("{", ";")) for ln in lines):
        return src, False
    perm = draw(st.permutations(lines))
    return "\n".join(perm), list(perm) != lines


def sample(case: Case, out: Outcome) -> dict:
    """a case written out for the evidence file"""
    return {
        "program": case.src,
        "IN": case.IN,
        "OUT": case.OUT,
        "traits": case.traits,
        "consts": case.consts,
        "instances": case.instances,
        "origin": case.origin,
        "result": out.result_text,
        "labels": sorted(set(out.labels)),
        "instance_comparisons": out.comparisons,
    }


def kind_labels(src: str) -> list[str]:
    """which constructs the source contains (computed with the independent walker)"""
    prg = oracle.try_parse(src)
    if prg is None:
        return []
    labs = set()
    for stm in prg:
        for n in astutil.walk(stm):
            t = n.ast_type.name
            if t == "Aggregate":
                labs.add("kind:oldstyle_or_choice")
            elif t == "BodyAggregate":
                labs.add("kind:bodyagg_" + ["count", "sum", "sumplus", "min", "max"][int(n.function)])
                if n.left_guard is not None and n.right_guard is not None:
                    labs.add("kind:two_guards")
            elif t == "HeadAggregate":
                labs.add("kind:headagg")
            elif t in ("Pool", "Interval", "ConditionalLiteral", "Disjunction", "Minimize", "ShowSignature", "ShowTerm", "Definition", "TheoryAtom", "External"):
                labs.add("kind:" + t.lower())
            elif t == "Comparison" and len(n.guards) > 1:
                labs.add("kind:chain")
            elif t == "Literal" and int(n.sign) != 0:
                labs.add("kind:negation")
            elif t in ("BinaryOperation", "UnaryOperation"):
                labs.add("kind:arithmetic")
    return sorted(labs)


def labelled_evaluate(spec: SemSpec) -> Callable[[Case, str], Outcome]:
    """evaluate + generic labels (declaration class, instance classes, statement kinds)"""

    def evaluate(case: Case, tier: str) -> Outcome:
        out = sem_evaluate(case, spec, tier)
        out.labels.extend(kind_labels(case.src))
        out.labels.append("decl:" + str(case.extra.get("decl", "?")))
        for c in set(case.extra.get("inst_classes", [])):
            out.labels.append("inst:" + c)
        out.labels.append("traits:" + trait_class(case.traits))
        return out

    return evaluate


def trait_class(traits: list) -> str:
    """coarse class of a trait subset"""
    from ..env import DEFAULT_TRAITS, TRAITS  # pylint: disable=import-outside-toplevel

    s = set(traits)
    if not s:
        return "none"
    if s == set(TRAITS):
        return "all"
    if s == set(DEFAULT_TRAITS):
        return "default"
    if len(s) == 1:
        return "single:" + next(iter(s))
    return f"subset{len(s)}"


def corpus_entries(trait: Optional[str] = None, files: Optional[list] = None, objective: bool = False) -> list[dict]:
    """valid corpus entries as JSON-able items"""
    res = corpus.valid(trait, files)
    if objective:
        res = [e for e in res if corpus.has_objective(e)]
    return [{"file": e["file"], "idx": e["idx"], "src": e["src"]} for e in res]


def install(
    ns: dict,
    *,
    pid: str,
    spec: SemSpec,
    rule: str,
    traits_fn: Callable[[Callable], list],
    corpus_sel: Callable[[], list],
    template: Optional[Callable[[Callable], tuple]] = None,
    mix: tuple = (6, 8, 6),  # weights grammar / template / mutant
    budgets: tuple = (2400, 48000),
    decl: str = "free",
    facts_over: str = "in",
    corpus_traits: Optional[Callable[[Callable, dict], list]] = None,
    mutant_pool: Optional[Callable[[], list]] = None,
    technique: str = "",
    level_text: str = "",
    level_note: str = "",
    grammar_kwargs: Optional[dict] = None,
) -> None:
    """populate a property module's namespace with the standard semantic-check interface"""
    ns["PID"] = pid
    ns["LEVEL"] = "exploration"
    ns["SPEC"] = spec
    ns["RULE"] = rule
    ns["ASSUMPTIONS"] = BASE_ASSUMPTIONS
    ns["evaluate"] = labelled_evaluate(spec)
    ns["sample"] = sample
    ns["TECHNIQUE"] = technique or "property-based differential testing (Hypothesis generators; clingo enumerates source vs rewrite)"
    ns["LEVEL_TEXT"] = level_text
    ns["LEVEL_NOTE"] = level_note or "Trusted: clingo 5.8.2, Hypothesis. Bounded program/instance sizes; open known findings suppress only failures matching their narrow trigger."

    def budget(tier: str) -> int:
        return budgets[0] if tier == "quick" else budgets[1]

    def corpus_items(tier: str) -> list:
        return corpus_sel()

    @st.composite
    def corpus_strategy(draw: Any, item: dict, tier: str) -> Any:
        traits = corpus_traits(draw, item) if corpus_traits else traits_fn(draw)
        return build_case(draw, item["src"], f"corpus:{item['file']}:{item['idx']}", tier, traits, decl=decl, facts_over=facts_over)

    gw, tw, mw = mix
    if template is None:
        tw = 0

    @st.composite
    def strategy(draw: Any, tier: str) -> Any:
        k = draw(st.integers(0, gw + tw + mw - 1))
        traits = traits_fn(draw)
        if k < gw:
            src = draw(grammar.programs(**(grammar_kwargs or {})))
            return build_case(draw, src, "grammar", tier, traits, decl=decl, facts_over=facts_over, sorts=GRAMMAR_SORTS)
        if k < gw + tw:
            src, name = template(draw)
            src, shuffled = shuffle_statements(draw, src)
            return build_case(draw, src, "template:" + name + ("+shuffled" if shuffled else ""), tier, traits, decl=decl, facts_over=facts_over)
        pool = (mutant_pool or corpus_sel)()
        item = draw(st.sampled_from(pool))
        from ..gen import mutate  # pylint: disable=import-outside-toplevel

        src, _ = mutate.mutant(draw, item["src"])
        return build_case(draw, src, "mutant:" + item["file"], tier, traits, decl=decl, facts_over=facts_over)

    ns["budget"] = budget
    ns["corpus_items"] = corpus_items
    ns["corpus_strategy"] = corpus_strategy
    ns["strategy"] = strategy
