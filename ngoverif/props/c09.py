"""C09 - unused removes or shrinks only what no output, constraint or objective can see."""

from ..gen import templates
from ..semantic import SemSpec
from . import common

common.install(
    globals(),
    pid="C09",
    spec=SemSpec(pid="C09", proj="inout", costs=True, bijection=False, focus="unused"),
    rule=(
        "cases = unused templates (copy rules with permuted/repeated/constant arguments, copy chains, positions used only by `_`, predicates "
        "observed only by constraints/objectives/#show/#external/#project/#heuristic/#edge/head elements), test_unused corpus seeds and mutants, free grammar; "
        "optimised with only unused=True under generated IN/OUT (incl. empty and auto) and compared on IN+OUT+#show/#project signatures "
        "(and the shown symbols when OUT is auto-detected) with costs. non-trivial = the unused pass changed the program AND P+I has an answer set."
    ),
    traits_fn=lambda draw: ["unused"],
    corpus_sel=lambda: common.corpus_entries(),
    mutant_pool=lambda: common.corpus_entries("unused"),
    template=templates.unused_program,
    mix=(5, 10, 5),
    budgets=(3200, 32000),
    decl="free",
    level_text="Exploration: generated programs aimed at the usage scan / copy-rule short-circuiting are optimised with unused only and compared with the source under clingo on IN+OUT (answer sets and costs).",
)

from .. import astutil, oracle  # noqa: E402  pylint: disable=wrong-import-position

_base_evaluate = evaluate  # type: ignore  # noqa: F821  pylint: disable=undefined-variable,used-before-assignment


def evaluate(case, tier):  # type: ignore  # pylint: disable=function-redefined
    """semantic comparison on IN+OUT plus: predicates named by #show/#project signatures keep all their arguments.
    (A shown predicate that is *short-circuited* by a copy rule while the caller's explicit OUT omits it is not
    flagged: the property only promises that such predicates keep their arguments.)"""
    out = _base_evaluate(case, tier)
    if out.status != "pass" or not out.result_text:
        return out
    src = oracle.try_parse(case.src) or []
    res = oracle.try_parse(out.result_text) or []
    named = astutil.shown_signatures(src) | {(s.name, s.arity) for s in src if s.ast_type.name == "ProjectSignature"}
    if not named:
        return out
    out.labels.append("show_or_project_signature")
    src_def, res_def, src_voc = astutil.defined(src), astutil.defined(res), astutil.vocabulary(src)
    for name, arity in sorted(named):
        if (name, arity) in src_def and (name, arity) not in res_def:
            shrunk = [q for q in res_def - src_voc if q[0].startswith(name) and q[1] < arity]
            if shrunk:
                out.status = "fail"
                out.failure = {
                    "kind": "lost_arguments",
                    "detail": f"{name}/{arity} is named by a #show/#project signature but the result only defines {shrunk}",
                    "instance": "",
                    "attribution": {"pass": "unused", "before": case.src, "after": out.result_text, "how": "syntactic"},
                }
                return out
    return out
