"""C07 - interface predicates are untouched and every invented name is fresh."""

import re
from typing import Any, Optional

from clingo.ast import AST, ASTType, Location, Position
from hypothesis import strategies as st

from .. import astutil, oracle
from ..core import Case
from ..env import ADD_ONLY_TRAITS
from ..gen import config, rename
from ..gen.mutate import rewrite
from ..semantic import Outcome, SemSpec
from ..semantic import evaluate as sem_evaluate
from . import c01, common

PID = "C07"
LEVEL = "exploration"
TECHNIQUE = "metamorphic property-based testing (alpha-renaming onto ngo-shaped names, layout changes) with the clingo differential oracle, plus exact syntactic interface checks"
LEVEL_TEXT = (
    "Exploration: a generated program that ngo rewrites correctly is renamed bijectively onto the names ngo itself generates (predicates and variables), or re-laid-out (all statements on one line, identical locations as in API-built ASTs); "
    "the rewrite of the variant must still be equivalent to the variant. A name collision shows as a semantic difference, an unsafe rule or a changed model count. Exact syntactic checks cover pass-through of non-rule statements and the interface predicates."
)
LEVEL_NOTE = "Trusted: clingo 5.8.2. A violation is reported only when the un-renamed / normally laid out program passes the same oracle, so the failure is due to names or layout."
RULE = (
    "cases = base program (templates of all passes, corpus, mutants, grammar) + configuration + a variant: (a) predicates and variables renamed bijectively onto ngo-shaped names (__aux_N, __dom_p, __min_/__max_/__next_/__chain_.., __agg, unique, anon__ngo, none; AUX, AUX0, X0, __NEXT, __PREV, P, N, B, X, L, G0..), "
    "(b) all statements on one source line, or every node given the same location (API-built AST). oracle: base passes the semantic oracle (voc(P) with counts for add-only trait sets, IN+OUT otherwise) and the variant must pass it too; "
    "(c) exact: statements that are neither rules nor objectives appear verbatim and in order in the result (modulo unpooling); new head predicates of the result are disjoint from IN+OUT and from voc(P); inputs without defining rule in P have none in the result. "
    "non-trivial = a pass fired on the variant AND (the variant uses an ngo-shaped name OR has >= 2 statements on one line / identical locations); distinct = distinct (program, configuration, variant) hash."
)
ASSUMPTIONS = common.BASE_ASSUMPTIONS + ["a variant failure counts only if the base program passes the same oracle (otherwise the case is discarded as base_fails)"]
VOC = SemSpec(pid=PID, proj="voc", costs=True, bijection=True, rejected_is_violation=True)
INOUT = SemSpec(pid=PID, proj="inout", costs=True, bijection=False, rejected_is_violation=True)
NGO_SHAPED = re.compile(r"__aux_|__dom_|__min_|__max_|__next_|__chain|__agg|unique|anon__ngo|\bnone\b|AUX|__NEXT|__PREV|\bX0\b|\bG[0-9]\b|__VAR")


def budget(tier: str) -> int:
    """generated cases"""
    return 1200 if tier == "quick" else 20000


def corpus_items(tier: str) -> list:
    """whole valid corpus"""
    return common.corpus_entries()


def _variant(draw: Any, case: Case) -> Case:
    """choose the variant; it is *derived* from case.src at evaluation time so that shrinking stays consistent"""
    k = draw(st.integers(0, 9))
    kind = "rename" if k < 5 else "layout_join" if k < 8 else "layout_sameloc"
    case.extra["variant"] = kind
    if kind == "rename":
        _, mapping = rename.rename_predicates(draw, case.src, 60)
        case.extra["pred_map"] = mapping
        case.extra["var_perm"] = list(draw(st.permutations(rename.NGO_VARS)))
        case.extra["var_mask"] = [draw(st.booleans()) for _ in range(8)] if draw(st.integers(0, 9)) < 6 else [False]
    return case


@st.composite
def corpus_strategy(draw: Any, item: dict, tier: str) -> Any:
    """corpus x variant"""
    case = common.build_case(draw, item["src"], f"corpus:{item['file']}:{item['idx']}", tier, c01.corpus_traits(draw, item), decl="noauto", count=3)
    return _variant(draw, case)


@st.composite
def strategy(draw: Any, tier: str) -> Any:
    """C01's generator (explicit declarations) x variant"""
    case = draw(c01.strategy(tier))
    if case.IN == "auto" or case.OUT == "auto":
        info = common.analyse(case.src)
        if info:
            case.IN = [list(s) for s in sorted(info["undefined"])]
            case.OUT = [list(s) for s in sorted(info["voc"])]
    case.instances = case.instances[:3]
    return _variant(draw, case)


LOC = Location(Position("<api>", 1, 1), Position("<api>", 1, 1))


def _same_locations(prg: list[AST]) -> list[AST]:
    def fn(node: AST) -> Optional[AST]:
        return None

    out = []
    for stm in prg:
        def relocate(node: AST) -> Optional[AST]:
            return None

        out.append(_relocate(stm))
    return out


def _relocate(node: AST) -> AST:
    changes = {}
    for key in node.child_keys:
        ch = getattr(node, key)
        if ch is None:
            continue
        if isinstance(ch, AST):
            changes[key] = _relocate(ch)
        else:
            changes[key] = [_relocate(x) if isinstance(x, AST) else x for x in ch]
    if "location" in node.keys():
        changes["location"] = LOC
    return node.update(**changes) if changes else node


def _map_sig(sig: list, mapping: dict) -> list:
    return [mapping.get(f"{sig[0]}/{sig[1]}", sig[0]), sig[1]]


def _rename_facts(inst: str, mapping: dict) -> str:
    out = []
    for fact in [f for f in inst.split(". ") if f.strip()]:
        fact = fact.strip().rstrip(".")
        m = re.match(r"^([a-z_][A-Za-z0-9_]*)(\((.*)\))?$", fact, re.S)
        if not m:
            out.append(fact + ".")
            continue
        name = m.group(1)
        arity = 0
        if m.group(3) is not None:
            prg = oracle.try_parse(fact + ".")
            arity = len(prg[-1].head.atom.symbol.arguments) if prg else 0
        new = mapping.get(f"{name}/{arity}", name)
        out.append(new + (m.group(2) or "") + ".")
    return " ".join(out)


def _syntactic(case: Case, src_text: str, result_text: str, opt: Any = None) -> Optional[tuple[str, str]]:
    """clause (c): exact interface checks"""
    src = oracle.try_parse(src_text) or []
    res = oracle.try_parse(result_text) or []
    keep = lambda s: s.ast_type not in (ASTType.Rule, ASTType.Minimize) and not (s.ast_type == ASTType.Program and s.name == "base" and not s.parameters)
    want = []
    for s in src:
        if keep(s):
            want.extend(str(x) for x in s.unpool())
    got = [str(s) for s in res if keep(s)]
    it = iter(got)
    if not all(any(w == g for g in it) for w in want):
        return "nonrule_statement_changed", f"expected {want} as a subsequence of {got}"
    if len(got) != len(want):
        return "nonrule_statement_added", f"source has {want}, result has {got}"
    voc = astutil.vocabulary(src)
    declared = {tuple(s) for s in (case.IN if case.IN != "auto" else [])} | {tuple(s) for s in (case.OUT if case.OUT != "auto" else [])}
    new_heads = astutil.defined(res) - voc
    clash = new_heads & declared
    if clash:
        return "invented_predicate_collides_with_declaration", str(sorted(clash))
    # a pass that invents a predicate defines it in the same application.  Judged per traced pass application, not on the final
    # text: cleanup rightly deletes the defining rule of an invented predicate whose body can never hold and leaves the (dead)
    # user behind, and unused renames predicates - neither invents anything, both are skipped
    for step in opt.trace.steps if opt is not None else []:
        if not step.fired or step.name in ("cleanup", "unused"):
            continue
        before, after = oracle.try_parse(step.before), oracle.try_parse(step.after)
        if before is None or after is None:
            continue
        used_not_defined = astutil.rule_vocabulary(after) - astutil.defined(after) - astutil.vocabulary(before) - voc - declared
        if used_not_defined:
            return "invented_predicate_without_definition", f"{sorted(used_not_defined)} after {step.name}"
    src_def = astutil.defined(src)
    for sig in sorted(tuple(s) for s in (case.IN if case.IN != "auto" else [])):
        if sig not in src_def and sig in astutil.defined(res):
            return "input_predicate_received_a_rule", str(sig)
    return None


def _fresh_variables(opt: Any) -> Optional[tuple[str, str]]:
    """exact check on the traced ex-lining steps (statement i of the input becomes statement i of the output):
    the variables ngo invents for arithmetic it moves out of atoms / objective terms must be pairwise distinct"""
    if opt is None:
        return None
    for step in opt.trace.steps:
        if step.name != "exline_arithmetic" or not step.fired:
            continue
        before, after = oracle.try_parse(step.before) or [], oracle.try_parse(step.after) or []
        if len(before) != len(after):
            continue
        for sb, sa in zip(before, after):
            if sa.ast_type not in (ASTType.Rule, ASTType.Minimize) or str(sb) == str(sa):
                continue
            known = set(astutil.variables_in(sb))
            old_lits = {str(x) for x in sb.body}
            invented = []
            for lit in sa.body:
                if str(lit) in old_lits or lit.ast_type != ASTType.Literal or lit.atom.ast_type != ASTType.Comparison:
                    continue
                cmp_ = lit.atom
                if cmp_.term.ast_type == ASTType.Variable and len(cmp_.guards) == 1 and int(cmp_.guards[0].comparison) == 5 and cmp_.term.name not in known:
                    invented.append(cmp_.term.name)
            dup = sorted({v for v in invented if invented.count(v) > 1})
            if dup:
                return "invented_variable_reused", f"{dup} is assigned twice in: {sa}"
    return None


def evaluate(case: Case, tier: str) -> Outcome:
    """base must pass; variant must pass too"""
    spec = VOC if set(case.traits) <= set(ADD_ONLY_TRAITS) else INOUT
    base = sem_evaluate(case, spec, tier)
    reused = _fresh_variables(base.opt)
    if reused is not None:
        base.status = "fail"
        base.failure = {"kind": reused[0], "detail": reused[1], "instance": "", "attribution": {"pass": "exline_arithmetic", "before": case.src, "after": base.result_text}}
        return base
    if base.status == "discard":
        return base
    syn = _syntactic(case, case.src, base.result_text, base.opt) if base.result_text else None
    if base.status == "fail":
        if syn is not None and syn[0] == "invented_predicate_without_definition":
            base.failure = {"kind": syn[0], "detail": syn[1], "instance": "", "attribution": {"pass": "interface", "before": case.src, "after": base.result_text}}
            return base
        return Outcome(status="discard", reason="base_fails")
    kind = case.extra.get("variant", "plain")
    out = Outcome()
    if syn is None and kind != "plain":
        hook = None
        if kind == "rename":
            mapping = case.extra.get("pred_map", {})
            vtext = rename.apply_var_perm(rename.apply_pred_map(case.src, mapping), case.extra.get("var_perm", []), case.extra.get("var_mask", [False]))
            vcase = Case(
                src=vtext,
                IN=[_map_sig(s, mapping) for s in case.IN] if case.IN != "auto" else "auto",
                OUT=[_map_sig(s, mapping) for s in case.OUT] if case.OUT != "auto" else "auto",
                traits=case.traits,
                consts=case.consts,
                instances=[_rename_facts(i, mapping) for i in case.instances],
                extra=case.extra,
            )
        elif kind == "layout_join":
            stms = [str(s) for s in (oracle.try_parse(case.src) or []) if not (s.ast_type == ASTType.Program and s.name == "base" and not s.parameters)]
            vcase = Case(src=" ".join(stms), IN=case.IN, OUT=case.OUT, traits=case.traits, consts=case.consts, instances=case.instances, extra=case.extra)
        else:
            vcase = case
            hook = lambda prg: [_relocate(s) for s in prg]
        out = sem_evaluate(vcase, spec, tier, prg_hook=hook)
        if out.status == "fail":
            out.failure["variant"] = kind
            out.failure["variant_src"] = vcase.src
            out.failure["variant_IN"] = vcase.IN
            out.failure["variant_OUT"] = vcase.OUT
            out.failure["variant_instances"] = vcase.instances
            out.failure["kind"] = kind + ":" + out.failure["kind"]
        elif out.status == "pass":
            syn = _syntactic(vcase, vcase.src, out.result_text, out.opt)
            shaped = kind != "rename" or bool(NGO_SHAPED.search(vcase.src))
            fired = out.opt is not None and out.opt.trace.fired_names()
            out.nontrivial = [case.config_key() + kind] if (fired and shaped and out.comparisons) else []
    else:
        out = base
        out.nontrivial = []
    out.labels.append("variant:" + kind)
    out.labels.append("traits:" + common.trait_class(case.traits))
    if syn is not None and out.status != "fail":
        out.status = "fail"
        out.failure = {"kind": syn[0], "detail": syn[1], "instance": "", "attribution": {"pass": "interface", "before": case.src, "after": out.result_text or base.result_text}}
    return out


sample = common.sample
