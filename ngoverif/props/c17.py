"""C17 - optimize is pure: reproducible, history-independent, leaves its argument alone."""

import json
import subprocess
import sys
from typing import Any

import hypothesis
from hypothesis import HealthCheck, Phase, settings
from hypothesis import strategies as st
from hypothesis.stateful import RuleBasedStateMachine, invariant, precondition, rule, run_state_machine_as_test

from .. import astutil, env, oracle
from ..core import Case, make_preds, run_optimize
from ..gen import config
from ..runner import derive_seed
from ..semantic import Outcome
from . import c01, common

PID = "C17"
LEVEL = "exploration"
TECHNIQUE = "stateful model-based testing (Hypothesis RuleBasedStateMachine: in-process history vs pristine-interpreter model), hash-seed/process differential, before/after structural comparison of the argument"
LEVEL_TEXT = (
    "Exploration with three oracles over generated (program, configuration): (a) the caller's statement list is structurally identical (node types, attributes, child order, locations' lines, str()) before and after optimize; "
    "(b) a rule-based state machine interleaves arbitrary earlier optimize calls with probes whose output must equal the output of a pristine interpreter; (c) interpreters started with different PYTHONHASHSEED values are fed the same tasks in different orders and must print byte-identical results."
)
LEVEL_NOTE = "Hash-seed dependence is sampled over a handful of seeds; collisions patterns those seeds do not produce are not seen. Trusted: Python, Hypothesis."
RULE = (
    "(a) cases = (program, configuration) from all sources, every trait subset; the argument list is dumped structurally before and after the call. (b) per shard a pool of programs; a RuleBasedStateMachine with rules optimize_noise(p, cfg) and probe(p, cfg) "
    "(invariant: every probe equals the model output computed once per key in a fresh interpreter), sequences of <= 20 steps. (c) per shard 5 child interpreters with PYTHONHASHSEED in {0,1,2,3,12345,...} each run the pool in a different generated permutation; all outputs per task must be byte-identical (and equal to the pristine model). "
    "non-trivial = at least two pass applications changed the program (>= 2 passes or >= 2 sites); distinct = distinct (program, configuration) hash."
)
ASSUMPTIONS = ["a task on which optimize raises is compared by its exception type (robustness itself is C03's business)", "absence of hash-seed dependence is sampled over 5 (quick) / 12 (thorough) seeds"]
HASHSEEDS = ["0", "1", "2", "3", "12345", "17", "99", "424242", "7", "31337", "5", "65535"]


def budget(tier: str) -> int:
    """cases for oracle (a)"""
    return 1000 if tier == "quick" else 16000


def time_budget(tier: str) -> float:
    """soft budget"""
    return 420.0 if tier == "quick" else 5400.0


def corpus_items(tier: str) -> list:
    """corpus for oracle (a)"""
    return common.corpus_entries()


@st.composite
def corpus_strategy(draw: Any, item: dict, tier: str) -> Any:
    """(a) corpus x traits"""
    return common.build_case(draw, item["src"], f"corpus:{item['file']}:{item['idx']}", tier, c01.corpus_traits(draw, item), decl="free", count=1)


@st.composite
def strategy(draw: Any, tier: str) -> Any:
    """(a) any program x any configuration"""
    case = draw(c01.strategy(tier))
    case.instances = []
    return case


def _dump(prg: list) -> tuple:
    return (astutil.program_dump(prg), tuple(str(s) for s in prg), tuple((s.location.begin.line, s.location.begin.column, s.location.end.line, s.location.end.column) for s in prg))


def evaluate(case: Case, tier: str) -> Outcome:
    """oracle (a): the argument is untouched"""
    out = Outcome()
    prg = oracle.try_parse(case.src)
    if prg is None:
        out.status, out.reason = "discard", "source_syntax"
        return out
    try:
        in_preds = make_preds(case.IN, prg, "in")
        out_preds = make_preds(case.OUT, prg, "out")
    except Exception:  # pylint: disable=broad-except
        out.status, out.reason = "discard", "autodetect_crash"
        return out
    arg = oracle.parse(case.src)
    ids = [id(s) for s in arg]
    before = _dump(arg)
    in_before = [(p.name, p.arity) for p in in_preds]
    out_before = [(p.name, p.arity) for p in out_preds]
    opt = run_optimize(arg, in_preds, out_preds, case.traits, 30.0)
    out.labels.append("traits:" + common.trait_class(case.traits))
    after = _dump(arg)
    if opt.status == "timeout":
        out.status, out.reason = "discard", "optimize_timeout"
        return out
    fail = None
    if len(arg) != len(ids) or [id(s) for s in arg] != ids:
        fail = ("argument_list_changed", f"list had {len(ids)} statements, now {len(arg)}")
    elif before != after:
        which = [i for i, (x, y) in enumerate(zip(before[0], after[0])) if x != y] or [i for i, (x, y) in enumerate(zip(before[1], after[1])) if x != y]
        i = which[0] if which else 0
        fail = ("argument_statement_modified", f"statement {i}: {before[1][i]!r} -> {after[1][i]!r}")
    elif in_before != [(p.name, p.arity) for p in in_preds] or out_before != [(p.name, p.arity) for p in out_preds]:
        fail = ("declaration_list_modified", "input/output predicate list changed")
    if fail:
        out.status = "fail"
        out.failure = {"kind": fail[0], "detail": fail[1], "attribution": {"pass": "argument"}}
        return out
    if opt.status == "ok":
        for n in opt.trace.fired_names():
            out.labels.append("fired:" + n)
        if opt.trace.fired() >= 2:
            out.nontrivial.append(case.config_key())
    elif opt.status == "crash":
        out.labels.append("crash_but_argument_intact")
    return out


sample = common.sample


# ------------------------------------------------------------------ (b) and (c): run once per shard
def _task(case: Case, key: str) -> dict:
    return {"key": key, "src": case.src, "IN": case.IN, "OUT": case.OUT, "traits": case.traits}


def _child(tasks: list, hashseed: str, timeout: float) -> dict:
    """run tasks (in this order) in one child interpreter"""
    data = "".join(json.dumps(t) + "\n" for t in tasks)
    try:
        proc = subprocess.run([sys.executable, "-m", "ngoverif.c17_child"], input=data.encode(), capture_output=True, env=env.child_env(hashseed), timeout=timeout, check=False)
    except subprocess.TimeoutExpired:
        return {}
    res = {}
    for line in proc.stdout.decode(errors="replace").splitlines():
        try:
            d = json.loads(line)
            res[d["key"]] = d.get("out", "ERROR:" + str(d.get("error")))
        except ValueError:
            continue
    return res


def _in_process(task: dict) -> str:
    from ..c17_child import run_task  # pylint: disable=import-outside-toplevel

    d = run_task(task)
    return d.get("out", "ERROR:" + str(d.get("error")))


def shard_extra(tier: str, seed: int, shard: int, nshards: int) -> dict:
    """oracles (b) and (c) on a per-shard pool"""
    from hypothesis import given  # pylint: disable=import-outside-toplevel

    pool_size = 8 if tier == "quick" else 24
    sequences = 5 if tier == "quick" else 40
    nseeds = 4 if tier == "quick" else 11
    pool: list = []

    @st.composite
    def pool_case(draw: Any) -> Any:
        """half of the pool: chain / inline templates under the default traits (several passes and name generation involved)"""
        from ..env import DEFAULT_TRAITS  # pylint: disable=import-outside-toplevel
        from ..gen import templates  # pylint: disable=import-outside-toplevel

        if draw(st.booleans()):
            return draw(c01.strategy(tier))
        fn = draw(st.sampled_from([templates.minmax_chains_program, templates.minmax_chains_program, templates.sum_chains_program, templates.symmetry_program, templates.inline_program, templates.dependency_program]))
        src, name = fn(draw)
        return common.build_case(draw, src, "template:" + name, tier, list(DEFAULT_TRAITS), decl="free", count=1)

    @hypothesis.seed(derive_seed(seed, PID, shard, "pool"))
    @settings(max_examples=pool_size * 3, database=None, deadline=None, phases=[Phase.generate], suppress_health_check=list(HealthCheck))
    @given(pool_case())
    def collect(case: Case) -> None:
        prg = oracle.try_parse(case.src)
        if prg is None or len(pool) >= pool_size:
            return
        if len(astutil.vocabulary(prg)) < 3 and len(pool) < pool_size // 2:
            return  # order dependence needs several predicates / candidate sites
        pool.append(_task(case, f"k{len(pool)}"))

    collect()
    # line-shifted twins: the same statements on other source lines (history bugs often key on text, not on location)
    for t in list(pool)[: max(2, len(pool) // 2)]:
        twin = dict(t)
        twin["key"] = t["key"] + "s"
        twin["src"] = "shifted__twin(0).\n\n" + t["src"]
        pool.append(twin)
    failures: list = []
    res: dict = {"evaluations": 0, "c17b_probes": 0, "c17b_noise_calls": 0, "c17b_sequences": 0, "c17c_children": 0, "c17c_tasks_compared": 0, "c17_pool": len(pool)}
    if not pool:
        return res
    # the model: every key in its own pristine interpreter
    model = {}
    for t in pool:
        got = _child([t], "0", 300.0)
        if t["key"] in got:
            model[t["key"]] = got[t["key"]]
    pool = [t for t in pool if t["key"] in model and not model[t["key"]].startswith("ERROR:TimeoutError")]
    res["c17_model_keys"] = len(model)
    if not pool:
        return res

    # ---- (b) stateful: history independence inside one long-lived process
    class History(RuleBasedStateMachine):
        """real object: this process; model: pristine-interpreter outputs"""

        def __init__(self) -> None:
            super().__init__()
            self.steps: list = []
            self.bad: Any = None

        @rule(i=st.integers(0, len(pool) - 1))
        def optimize_noise(self, i: int) -> None:
            _in_process(pool[i])
            self.steps.append(("noise", pool[i]["key"]))
            res["c17b_noise_calls"] += 1

        @rule(i=st.integers(0, len(pool) - 1))
        def probe(self, i: int) -> None:
            got = _in_process(pool[i])
            self.steps.append(("probe", pool[i]["key"]))
            res["c17b_probes"] += 1
            if got != model[pool[i]["key"]]:
                self.bad = (pool[i], got)

        @invariant()
        def agrees(self) -> None:
            if self.bad is not None and len(failures) < 3:
                task, got = self.bad
                failures.append({"case": {"src": task["src"], "IN": task["IN"], "OUT": task["OUT"], "traits": task["traits"], "extra": {"history": list(self.steps)}}, "failure": {"kind": "history_dependent_output", "detail": _first_diff(model[task["key"]], got), "attribution": {"pass": "history"}}, "stage": "stateful"})
                self.bad = None

    try:
        run_state_machine_as_test(
            hypothesis.seed(derive_seed(seed, PID, shard, "machine"))(History),
            settings=settings(max_examples=sequences, stateful_step_count=20, database=None, deadline=None, phases=[Phase.generate], suppress_health_check=list(HealthCheck), report_multiple_bugs=False),
        )
        res["c17b_sequences"] = sequences
    except Exception as exc:  # pylint: disable=broad-except
        res["c17b_error"] = f"{type(exc).__name__}: {str(exc)[:200]}"

    # ---- (c) other hash seeds, other orders, other processes
    orders: list = []

    @hypothesis.seed(derive_seed(seed, PID, shard, "orders"))
    @settings(max_examples=nseeds + 1, database=None, deadline=None, phases=[Phase.generate], suppress_health_check=list(HealthCheck))
    @given(st.permutations(list(range(len(pool)))))
    def draw_orders(perm: list) -> None:
        orders.append(list(perm))

    draw_orders()
    for idx, hs in enumerate(HASHSEEDS[1 : nseeds + 1]):
        order = orders[(idx + 1) % len(orders)] if orders else list(range(len(pool)))
        got = _child([pool[i] for i in order], hs, 600.0)
        res["c17c_children"] += 1
        for t in pool:
            if t["key"] not in got:
                continue
            res["c17c_tasks_compared"] += 1
            if got[t["key"]] != model[t["key"]] and len(failures) < 6:
                single = _child([t], hs, 300.0).get(t["key"])
                cause = "hash seed" if single is not None and single != model[t["key"]] else "history (order of earlier tasks)"
                failures.append({"case": {"src": t["src"], "IN": t["IN"], "OUT": t["OUT"], "traits": t["traits"], "extra": {"hashseed": hs, "order": [pool[i]["key"] for i in order], "cause": cause}}, "failure": {"kind": "output_differs_across_processes", "detail": f"PYTHONHASHSEED={hs}, cause: {cause}; " + _first_diff(model[t["key"]], got[t["key"]]), "attribution": {"pass": "hashseed" if cause == "hash seed" else "history"}}, "stage": "hashseed"})
    res["failures"] = failures
    res["evaluations"] = res["c17b_probes"] + res["c17c_tasks_compared"]
    return res


def _first_diff(a: str, b: str) -> str:
    la, lb = a.splitlines(), b.splitlines()
    for i, (x, y) in enumerate(zip(la, lb)):
        if x != y:
            return f"line {i + 1}: expected {x!r} got {y!r}"
    return f"expected {len(la)} lines, got {len(lb)}"


def replay(data: dict, tier: str) -> int:
    """re-run a stored case: argument check, then fresh interpreters under several hash seeds"""
    c = data["case"]
    case = Case(src=c["src"], IN=c["IN"], OUT=c["OUT"], traits=c["traits"], instances=[])
    out = evaluate(case, tier)
    bad = out.status == "fail"
    task = _task(case, "k0")
    outs = {hs: _child([task], hs, 300.0).get("k0") for hs in HASHSEEDS[:5]}
    if len(set(outs.values())) > 1:
        bad = True
        print("outputs differ across PYTHONHASHSEED:", {k: (v or "")[:80] for k, v in outs.items()})
    hist = c.get("extra", {}).get("history")
    print(f"replay: argument check {out.status}; distinct outputs over hash seeds: {len(set(outs.values()))}; history steps recorded: {len(hist) if hist else 0}")
    if bad:
        print(f"VIOLATION property={PID} replay=<given file>")
        return 1
    return 0
