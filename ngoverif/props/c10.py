"""C10 - duplication: a factored-out literal set means what the replaced literals meant."""

from ..gen import templates
from ..semantic import SemSpec
from . import common

TRAIT = "duplication"

common.install(
    globals(),
    pid="C10",
    spec=SemSpec(pid="C10", proj="voc", costs=True, bijection=True, focus=TRAIT),
    rule=(
        "cases = duplication templates (common literal subsets across bodies/conditions/aggregate elements/objectives), the test corpus seeds of the pass and their AST mutants, free grammar; "
        "optimised with only duplication=True under generated declarations (IN always contains every undefined predicate) and compared with the source "
        "on generated instances over IN: equal sets of (answer set on voc(P)+IN, cost per priority), equal counts (bijection). "
        "non-trivial = the duplication pass changed the program AND P+I has an answer set; distinct = distinct (program, configuration) hash."
    ),
    traits_fn=lambda draw: [TRAIT],
    corpus_sel=lambda: common.corpus_entries(),
    mutant_pool=lambda: common.corpus_entries(TRAIT),
    template=getattr(templates, "duplication_program", None),
    mix=(3, 10, 7),
    budgets=(2400, 48000),
    decl="noauto",
    level_text="Exploration: generated programs aimed at the duplication pass are optimised with that trait only and compared with the source under clingo on generated instances (answer sets, costs, counts).",
)
