"""C14 - math: simplified comparisons and aggregates are exact over the integers."""

from ..gen import templates
from ..semantic import SemSpec
from . import common

TRAIT = "math"

common.install(
    globals(),
    pid="C14",
    spec=SemSpec(pid="C14", proj="voc", costs=True, bijection=False, focus=TRAIT),
    rule=(
        "cases = math templates (comparisons between linear/non-linear integer terms and aggregate assignments combined arithmetically), the test corpus seeds of the pass and their AST mutants, free grammar; "
        "optimised with only math=True under generated declarations (IN always contains every undefined predicate) and compared with the source "
        "on generated instances over IN: equal sets of (answer set on voc(P)+IN, cost per priority). "
        "non-trivial = the math pass changed the program AND P+I has an answer set; distinct = distinct (program, configuration) hash."
    ),
    traits_fn=lambda draw: [TRAIT],
    corpus_sel=lambda: common.corpus_entries(),
    mutant_pool=lambda: common.corpus_entries(TRAIT),
    template=getattr(templates, "math_program", None),
    mix=(3, 10, 7),
    budgets=(1000, 20000),
    decl="noauto",
    level_text="Exploration: generated programs aimed at the math pass are optimised with that trait only and compared with the source under clingo on generated instances (answer sets, costs).",
)
