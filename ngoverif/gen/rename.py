"""Adversarial vocabulary: rename variables / predicates of a program onto the names ngo itself generates (C04, C07)."""

from typing import Callable, Optional

from clingo.ast import AST, ASTType
from hypothesis import strategies as st

from .. import astutil, oracle
from .mutate import rewrite

NGO_VARS = ["AUX", "AUX0", "AUX1", "X0", "__NEXT", "__PREV", "P", "N", "B", "X", "L", "G0", "G1", "__AUX_0", "__AUX_1", "__VAR__min_0_1", "X00", "L1"]
NGO_PREDS = [
    "__aux_1", "__aux_2", "__aux_3", "__dom_p", "__dom_q", "__dom___min_0_1", "__dom___max_0_1", "__min_0_0__dom_p", "__max_0_0__dom_p", "__next_0_0__dom_p",
    "__chain_0_0__min___dom_p", "__chain_0_0__max___dom_p", "__min_0_1", "__max_0_1", "__min_0_2", "__max_0_2", "__agg", "unique", "anon__ngo", "none", "__dom_sh", "__min_1_1__dom_sh", "__next_1_1__dom_sh", "__chain_1_1__max___dom_sh",
]


def rename_variables(draw: Callable, src: str) -> str:
    """bijectively rename some variables of every statement to ngo's hard-wired variable names"""
    prg = oracle.try_parse(src)
    if prg is None:
        return src
    out = []
    for stm in prg:
        if stm.ast_type == ASTType.Program and stm.name == "base" and not stm.parameters:
            continue
        names = sorted(set(astutil.variables_in(stm)) - {"_"})
        targets = list(draw(st.permutations(NGO_VARS)))
        mapping = {}
        for n in names:
            if draw(st.integers(0, 9)) < 6 and targets:
                t = targets.pop()
                if t not in names:
                    mapping[n] = t

        def fn(node: AST, mapping: dict = mapping) -> Optional[AST]:
            if node.ast_type == ASTType.Variable and node.name in mapping:
                return node.update(name=mapping[node.name])
            return None

        out.append(str(rewrite(stm, fn)))
    return "\n".join(out)


def rename_predicates(draw: Callable, src: str, percent: int = 50) -> tuple[str, dict]:
    """bijectively rename some predicates of the program onto ngo-shaped names; returns (text, mapping old sig -> new name)"""
    prg = oracle.try_parse(src)
    if prg is None:
        return src, {}
    voc = sorted(astutil.vocabulary(prg))
    targets = list(draw(st.permutations(NGO_PREDS)))
    mapping: dict = {}
    used = {n for n, _ in voc}
    for sig in voc:
        if draw(st.integers(0, 99)) < percent and targets:
            t = targets.pop()
            if t not in used:
                mapping[sig] = t
                used.add(t)

    def fn(node: AST) -> Optional[AST]:
        if node.ast_type == ASTType.SymbolicAtom and node.symbol.ast_type == ASTType.Function:
            key = (node.symbol.name, len(node.symbol.arguments))
            if key in mapping:
                return node.update(symbol=node.symbol.update(name=mapping[key]))
        if node.ast_type in (ASTType.ShowSignature, ASTType.ProjectSignature, ASTType.Defined):
            key = (node.name, node.arity)
            if key in mapping:
                return node.update(name=mapping[key])
        return None

    out = [str(rewrite(s, fn)) for s in prg if not (s.ast_type == ASTType.Program and s.name == "base" and not s.parameters)]
    return "\n".join(out), {f"{k[0]}/{k[1]}": v for k, v in mapping.items()}


def apply_pred_map(src: str, mapping: dict) -> str:
    """rename predicates according to {"name/arity": newname}; predicates absent from the program are ignored"""
    prg = oracle.try_parse(src)
    if prg is None:
        return src

    def fn(node: AST) -> Optional[AST]:
        if node.ast_type == ASTType.SymbolicAtom and node.symbol.ast_type == ASTType.Function:
            key = f"{node.symbol.name}/{len(node.symbol.arguments)}"
            if key in mapping:
                return node.update(symbol=node.symbol.update(name=mapping[key]))
        if node.ast_type in (ASTType.ShowSignature, ASTType.ProjectSignature, ASTType.Defined):
            key = f"{node.name}/{node.arity}"
            if key in mapping:
                return node.update(name=mapping[key])
        return None

    return "\n".join(str(rewrite(s, fn)) for s in prg if not (s.ast_type == ASTType.Program and s.name == "base" and not s.parameters))


def apply_var_perm(src: str, perm: list, mask: list) -> str:
    """deterministically rename the i-th variable (sorted) of every statement to perm[i] where mask[i] holds"""
    prg = oracle.try_parse(src)
    if prg is None or not perm:
        return src
    out = []
    for stm in prg:
        if stm.ast_type == ASTType.Program and stm.name == "base" and not stm.parameters:
            continue
        names = sorted(set(astutil.variables_in(stm)) - {"_"})
        mapping = {}
        for i, n in enumerate(names):
            t = perm[i % len(perm)]
            if mask[i % len(mask)] and t not in names and t not in mapping.values():
                mapping[n] = t

        def fn(node: AST, mapping: dict = mapping) -> Optional[AST]:
            if node.ast_type == ASTType.Variable and node.name in mapping:
                return node.update(name=mapping[node.name])
            return None

        out.append(str(rewrite(stm, fn)))
    return "\n".join(out)
