"""Free grammar for the fragment ngo targets - safe by construction (DESIGN.md 3.1).

Programs are built as text, body first: positive atoms bind sorted variables,
everything else is drawn over the bound variables.  Every random choice is a
Hypothesis draw.  clingo remains the judge of validity; the residual rejection
rate is measured by the runner.
"""

from typing import Callable, Optional

from hypothesis import strategies as st

# name, sorts of the argument positions: i = integer, s = symbolic, m = mixed
PREDS: list[tuple[str, str]] = [
    ("p", "i"),
    ("q", "ii"),
    ("r", "si"),
    ("s", "s"),
    ("t", "isi"),
    ("u", ""),
    ("v", ""),
    ("w", "m"),
]
VARS = ["X", "Y", "Z", "U", "V", "W", "A", "B", "C", "D"]
OPS = ["=", "!=", "<", "<=", ">", ">="]
AGGS = ["#sum", "#sum+", "#count", "#min", "#max"]


class G:
    """drawing helper: all choices go through Hypothesis"""

    def __init__(self, draw: Callable, preds: Optional[list[tuple[str, str]]] = None, features: Optional[set] = None):
        self.draw = draw
        self.preds = preds or PREDS
        self.consts: list[str] = []  # #const names (integer valued)
        self.features = features if features is not None else set()
        self.direct: set = set()  # variables that are a plain argument of a positive atom
        self.stm_preds: set = set()  # predicate names used so far in the current statement
        self.order: Optional[list[str]] = None  # per-program stratification order of predicate names
        self.glob_used: set = set()  # names bound (or reserved) globally in the current statement
        self.loc_used: set = set()  # names used as local variables somewhere in the current statement

    def new_statement(self) -> None:
        """forget variable names"""
        self.glob_used = set()
        self.loc_used = set()
        self.stm_preds = set()
        self.direct = set()

    def fresh(self, scope: dict, local: bool) -> Optional[str]:
        """a variable name that cannot be captured: globals avoid every name used so far,
        locals avoid the globals and their own scope (but may repeat locals of other elements)"""
        if local:
            free = [v for v in VARS if v not in self.glob_used and v not in scope]
            if not free:
                return None
            reuse = [v for v in free if v in self.loc_used]
            v = self.one(reuse) if reuse and self.p(40) else (free[0] if self.p(70) else self.one(free))
            self.loc_used.add(v)
            return v
        free = [v for v in VARS if v not in self.glob_used and v not in self.loc_used]
        if not free:
            return None
        v = free[0] if self.p(70) else self.one(free)
        self.glob_used.add(v)
        return v

    # ---- primitive draws
    def i(self, lo: int, hi: int) -> int:
        """integer in [lo,hi]"""
        return self.draw(st.integers(lo, hi))

    def p(self, percent: int) -> bool:
        """true with roughly the given probability"""
        return self.draw(st.integers(0, 99)) < percent

    def one(self, seq: list):
        """element of seq"""
        return self.draw(st.sampled_from(seq))

    # ---- terms
    def int_const(self) -> str:
        """integer literal (or #const symbol)"""
        if self.consts and self.p(15):
            return self.one(self.consts)
        return str(self.i(-2, 4))

    def sym_const(self) -> str:
        """symbolic constant"""
        return self.one(["a", "b", "c"])

    def int_term(self, bound: dict, depth: int = 0) -> str:
        """integer term over bound integer variables"""
        ivars = sorted(v for v, s in bound.items() if s == "i")
        if not ivars or self.p(15):
            return self.int_const()
        v = self.one(ivars)
        k = self.i(0, 19)
        if k < 9 or depth > 1:
            return v
        if k < 12:
            return f"{v}{self.one(['+', '-'])}{self.i(0, 3)}"
        if k < 14:
            return f"{v}*{self.i(-1, 3)}"
        if k < 16:
            return f"{v}{self.one(['+', '-', '*'])}{self.int_term(bound, depth + 1)}"
        if k < 17:
            return f"{self.i(1, 3)}*{v}+{self.i(-1, 2)}"
        if k < 18:
            return f"|{v}|"
        if k < 19:
            return f"{v}{self.one(['/', '\\'])}{self.i(1, 3)}"
        return f"-{v}"

    def sym_term(self, bound: dict) -> str:
        """symbolic term"""
        svars = sorted(v for v, s in bound.items() if s == "s")
        k = self.i(0, 9)
        if svars and k < 6:
            return self.one(svars)
        if k < 8:
            return self.sym_const()
        if k < 9:
            return f"f({self.int_term(bound, 2)})"
        return f"({self.sym_const()},{self.int_term(bound, 2)})"

    def term(self, sort: str, bound: dict) -> str:
        """term of the given sort over bound variables"""
        if sort == "i":
            return self.int_term(bound)
        if sort == "s":
            return self.sym_term(bound)
        return self.int_term(bound) if self.p(50) else self.sym_term(bound)

    # ---- atoms
    def pred(self, arity_min: int = 0) -> tuple[str, str]:
        """a predicate of the vocabulary"""
        cands = [x for x in self.preds if len(x[1]) >= arity_min]
        res = self.one(cands)
        self.stm_preds.add(res[0])
        return res

    def head_pred(self) -> tuple[tuple[str, str], bool]:
        """predicate for a head: mostly one ranked above every predicate of the body (no recursion);
        returns (pred, stratified)"""
        if self.order is None:
            self.order = self.draw(st.permutations([n for n, _ in self.preds]))
        rank = {n: i for i, n in enumerate(self.order)}
        top = max((rank[n] for n in self.stm_preds if n in rank), default=-1)
        cands = [x for x in self.preds if rank[x[0]] > top]
        if cands and self.p(85):
            return self.one(cands), True
        return self.one(self.preds), False

    def binding_atom(
        self, bound: dict, new: dict, anon: bool = True, pred: Optional[tuple[str, str]] = None, local: bool = False
    ) -> str:
        """positive atom whose arguments are variables (fresh or known), constants or `_`; fresh ones go to `new`"""
        name, sorts = pred or self.pred()
        args = []
        for s in sorts:
            k = self.i(0, 19)
            if k < 14:
                known = sorted(v for v, vs in {**bound, **new}.items() if vs == s or s == "m")
                v = None
                if not known or self.p(55):
                    v = self.fresh({**bound, **new}, local)
                if v is not None:
                    new[v] = "i" if s == "m" else s
                    self.direct.add(v)
                    args.append(v)
                elif known:
                    args.append(self.one(known))
                else:
                    args.append(self.int_const() if s != "s" else self.sym_const())
            elif k < 17:
                args.append(self.int_const() if s == "i" or (s == "m" and self.p(50)) else self.sym_const())
            elif k < 19 and anon:
                args.append("_")
            else:
                args.append(self.term(s, bound))
        return name + (f"({','.join(args)})" if args else "")

    def bound_atom(self, bound: dict, arith: bool = True, anon: bool = False, pred: Optional[tuple[str, str]] = None) -> str:
        """atom over bound variables only"""
        name, sorts = pred or self.pred()
        args = []
        for s in sorts:
            if anon and self.p(12):
                args.append("_")
                continue
            cands = sorted(v for v, vs in bound.items() if vs == s or s == "m")
            if cands and self.p(75):
                args.append(self.one(cands))
            elif arith:
                args.append(self.term(s, bound))
            else:
                args.append(self.int_const() if s == "i" or (s == "m" and self.p(50)) else self.sym_const())
        return name + (f"({','.join(args)})" if args else "")

    def ground_atom(self) -> str:
        """ground atom, possibly with interval / pool"""
        name, sorts = self.pred()
        args = []
        for s in sorts:
            if s != "s" and self.p(15):
                lo = self.i(-1, 3)
                args.append(f"{lo}..{lo + self.i(0, 3)}")
            elif self.p(8):
                args.append(f"({self.int_const() if s != 's' else self.sym_const()};{self.int_const() if s != 's' else self.sym_const()})")
            else:
                args.append(self.int_const() if s == "i" or (s == "m" and self.p(60)) else self.sym_const())
        return name + (f"({','.join(args)})" if args else "")

    # ---- body parts
    def comparison(self, bound: dict) -> str:
        """comparison over bound variables (possibly a chain / negated)"""
        svars = sorted(v for v, s in bound.items() if s == "s")
        if svars and self.p(20):
            lit = f"{self.one(svars)} {self.one(['=', '!=', '<'])} {self.sym_term(bound)}"
        elif self.p(15):
            lit = f"{self.int_term(bound)} {self.one(['<', '<=', '!=', '='])} {self.int_term(bound)} {self.one(['<', '<=', '!='])} {self.int_term(bound)}"
        else:
            lit = f"{self.int_term(bound)} {self.one(OPS)} {self.int_term(bound)}"
        if self.p(12):
            lit = "not " + lit
        return lit

    def condition(self, bound: dict, local: dict, maxlen: int = 2) -> list[str]:
        """condition of a conditional literal / aggregate element; fresh variables go to `local`"""
        conds = [self.binding_atom(bound, local, local=True)]
        for _ in range(self.i(0, maxlen - 1)):
            scope = {**bound, **local}
            k = self.i(0, 9)
            if k < 4:
                conds.append(self.binding_atom(bound, local, local=True))
            elif k < 6:
                conds.append(self.one(["not ", "not ", "not not "]) + self.bound_atom(scope, anon=True))
            elif k < 9:
                conds.append(self.comparison(scope))
            else:
                v = self.fresh(scope, True) if self.p(50) else None
                if v:
                    lo = self.i(0, 2)
                    conds.append(f"{v} = {lo}..{lo + self.i(0, 2)}")
                    local[v] = "i"
                else:
                    conds.append(self.comparison(scope))
        return conds

    def aggregate(self, bound: dict, newglob: dict) -> str:
        """body aggregate literal; an assignment variable goes to `newglob`"""
        fn = self.one(AGGS)
        old_style = self.p(12)
        k = self.i(0, 19)
        assign = self.fresh(bound, False) if k < 6 else None
        elems = []
        for _ in range(self.i(1, 3)):
            local: dict = {}
            if old_style:
                lit = self.binding_atom(bound, local, local=True) if self.p(70) else self.one(["not ", "not not "]) + self.bound_atom(bound, anon=True)
                conds = self.condition(bound, local, 2) if self.p(50) else []
                elems.append(lit + (" : " + ", ".join(conds) if conds else ""))
                continue
            conds = self.condition(bound, local, 3)
            scope = {**bound, **local}
            w = self.int_term(scope) if fn != "#count" or self.p(50) else self.term("m", scope)
            tup = [w]
            for _ in range(self.i(0, 2)):
                tup.append(self.one(sorted(scope)) if scope and self.p(70) else self.term("m", scope))
            elems.append(",".join(tup) + " : " + ", ".join(conds))
        body = ("" if old_style else fn) + "{ " + "; ".join(elems) + " }"
        self.features.add("aggregate:" + ("old" if old_style else fn))
        neg = self.one(["", "", "", "not ", "not not "])
        if assign:
            newglob[assign] = "i"
            return f"{assign} = {body}"
        if k < 11:
            return f"{neg}{self.int_term(bound)} {self.one(OPS)} {body}"
        if k < 15:
            return f"{neg}{body} {self.one(OPS)} {self.int_term(bound)}"
        if k < 18:
            return f"{neg}{self.int_term(bound)} {self.one(['<', '<=', '!='])} {body} {self.one(['<', '<=', '!='])} {self.int_term(bound)}"
        if k < 19:
            return f"{neg}{self.one(['#inf', self.int_const()])} <= {body} <= {self.one(['#sup', self.int_const()])}"
        return f"{neg}{body}" if old_style or fn in ("#sum", "#sum+", "#count") else f"{neg}{body} != #sup"

    def body(self, min_pos: int = 1, max_pos: int = 3, max_extra: int = 3, aggregates: bool = True) -> tuple[list[str], dict]:
        """a safe rule body: (literals, bound variables with sorts)"""
        lits: list[str] = []
        bound: dict = {}
        self.new_statement()
        for _ in range(self.i(min_pos, max_pos)):
            new: dict = {}
            lits.append(self.binding_atom(bound, new))
            bound.update(new)
        for _ in range(self.i(0, max_extra)):
            k = self.i(0, 19)
            if k < 4:
                lits.append(self.one(["not ", "not ", "not not "]) + self.bound_atom(bound, anon=True))
                self.features.add("negation")
            elif k < 9:
                lits.append(self.comparison(bound))
            elif k < 11:
                v = self.fresh(bound, False)
                if v:
                    if self.p(25):
                        lo = self.i(-1, 2)
                        lits.append(f"{v} = {lo}..{lo + self.i(0, 3)}")
                        self.features.add("interval")
                    else:
                        lits.append(f"{v} = {self.int_term(bound)}" if self.p(70) else f"{self.int_term(bound)} = {v}")
                        self.features.add("assignment")
                    bound[v] = "i"
            elif k < 16 and aggregates:
                newglob: dict = {}
                lits.append(self.aggregate(bound, newglob))
                bound.update(newglob)
            elif k < 18:
                local: dict = {}
                conds = self.condition(bound, local, 2)
                scope = {**bound, **local}
                lits.append(f"{self.one(['', '', 'not '])}{self.bound_atom(scope, anon=False)} : {', '.join(conds)}")
                self.features.add("conditional")
            else:
                new = {}
                lits.append(self.binding_atom(bound, new))
                bound.update(new)
        return lits, bound

    @staticmethod
    def join_body(lits: list[str], semi: bool) -> str:
        """conditional literals must be followed by `;`"""
        out = ""
        for idx, lit in enumerate(lits):
            out += lit
            if idx + 1 < len(lits):
                out += "; " if (semi or " : " in lit) else ", "
        return out

    def head_atom(self, bound: dict, arith: Optional[bool] = None) -> str:
        """head atom over bound variables, sometimes with arithmetic (never when possibly recursive)"""
        pred, strat = self.head_pred()
        if arith is None:
            arith = self.p(25)
        if not strat:
            bound = {v: s for v, s in bound.items() if v in self.direct}
        return self.bound_atom(bound, arith=arith and strat, pred=pred)

    # ---- statements
    def statement(self, objectives: bool = True) -> str:
        """one statement"""
        k = self.i(0, 39)
        if k < 4:
            return self.ground_atom() + "."
        if k < 5:
            return f"{{ {self.ground_atom()}; {self.ground_atom()} }}{self.one(['', ' 1', ' = 1'])}."
        lits, bound = self.body()
        b = self.join_body(lits, self.p(40))
        if k < 17:
            return f"{self.head_atom(bound)} :- {b}."
        if k < 23:
            elems = []
            for _ in range(self.i(1, 3)):
                local: dict = {}
                if self.p(50):
                    conds = self.condition(bound, local, 2)
                    elems.append(f"{self.head_atom({**bound, **local}, False)} : {', '.join(conds)}")
                else:
                    elems.append(self.head_atom(bound, False))
            lb = self.one(["", "", "", "0 ", "1 ", f"{self.i(0, 2)} <= "])
            ub = self.one(["", "", " 1", " 2", " <= 1", " < 2", " = 1", f" {self.i(0, 2)}"])
            self.features.add("choice")
            return f"{lb}{{ {'; '.join(elems)} }}{ub} :- {b}."
        if k < 27:
            self.features.add("constraint")
            return f":- {b}."
        if k < 29:
            self.features.add("disjunction")
            return f"{self.head_atom(bound)} {self.one([';', '|'])} {self.head_atom(bound, False)} :- {b}."
        if k < 31:
            elems = []
            fn = self.one(["#sum", "#count", "#sum+", "#min", "#max"])
            for _ in range(self.i(1, 2)):
                local = {}
                conds = self.condition(bound, local, 2)
                scope = {**bound, **local}
                elems.append(f"{self.int_term(scope)},{self.one(sorted(scope)) if scope else 0} : {self.head_atom(scope, False)} : {', '.join(conds)}")
            g = self.one([f"{self.i(0, 2)} <= ", "", ""])
            g2 = self.one([f" <= {self.i(0, 3)}", f" = {self.i(0, 2)}", f" < {self.i(1, 3)}", ""]) if not g or self.p(30) else ""
            if not g and not g2:
                g2 = " <= 1"
            self.features.add("headaggregate")
            return f"{g}{fn}{{ {'; '.join(elems)} }}{g2} :- {b}."
        if not objectives or k < 33:
            return f"{self.head_atom(bound)} :- {b}."
        self.features.add("objective")
        w = self.int_term(bound)
        prio = self.one(["", "", "@0", "@1", "@2", f"@{self.int_const()}"])
        tup = "".join("," + (self.one(sorted(bound)) if bound and self.p(70) else self.term("m", bound)) for _ in range(self.i(0, 2)))
        if k < 37:
            return f":~ {b}. [{w}{prio}{tup}]"
        b2 = self.join_body(lits, False)
        if any(" : " in lit or ";" in lit for lit in lits):
            return f":~ {b}. [{w}{prio}{tup}]"
        return f"#{self.one(['minimize', 'maximize'])}{{ {w}{prio}{tup} : {b2} }}."

    def directives(self) -> list[str]:
        """#show / #const"""
        out = []
        if self.p(30):
            for _ in range(self.i(1, 3)):
                k = self.i(0, 9)
                if k < 6:
                    n, srt = self.pred()
                    out.append(f"#show {n}/{len(srt)}.")
                elif k < 9:
                    lits, bound = self.body(1, 2, 0, aggregates=False)
                    out.append(f"#show {self.term('m', bound)} : {self.join_body(lits, False)}.")
                else:
                    out.append("#show.")
            self.features.add("show")
        return out

    def program(self, min_stm: int = 1, max_stm: int = 6, objectives: bool = True) -> str:
        """a whole program"""
        stms = []
        if self.p(12):
            self.consts.append("n")
            stms.append(f"#const n = {self.i(0, 3)}.")
            self.features.add("const")
        for _ in range(self.i(min_stm, max_stm)):
            stms.append(self.statement(objectives))
        stms.extend(self.directives())
        return "\n".join(stms)


@st.composite
def programs(draw: Callable, min_stm: int = 1, max_stm: int = 6, objectives: bool = True) -> str:
    """strategy: program text from the free grammar"""
    return G(draw).program(min_stm, max_stm, objectives)
