"""Instances, declarations and trait subsets (DESIGN.md 3.4) - all draws are Hypothesis draws."""

import re
from typing import Callable, Iterable, Optional

from hypothesis import strategies as st

from ..env import ADD_ONLY_TRAITS, DEFAULT_TRAITS, TRAITS

Sig = tuple[str, int]
_INT = re.compile(r"(?<![A-Za-z_0-9])-?\d+")


def int_pool(src: str) -> list[int]:
    """integers near the constants of the program plus a fixed small range"""
    pool = {-2, -1, 0, 1, 2, 3, 4}
    for m in _INT.findall(src):
        v = int(m)
        if abs(v) <= 60:
            pool.update((v - 1, v, v + 1))
    return sorted(pool)


class D:
    """drawing helper"""

    def __init__(self, draw: Callable):
        self.draw = draw

    def i(self, lo: int, hi: int) -> int:
        """integer"""
        return self.draw(st.integers(lo, hi))

    def p(self, percent: int) -> bool:
        """biased coin"""
        return self.draw(st.integers(0, 99)) < percent

    def one(self, seq: list):
        """element"""
        return self.draw(st.sampled_from(seq))

    def subset(self, seq: Iterable, percent: int = 50) -> list:
        """random subset (order kept)"""
        return [x for x in seq if self.p(percent)]


SYMS = ["a", "b", "c"]


def _value(d: D, sort: str, ints: list[int], small: list[int], mode: str) -> str:
    if sort == "s" or (sort == "m" and mode == "mixed" and d.p(35)):
        k = d.i(0, 11)
        if k < 9:
            return d.one(SYMS)
        if k < 10:
            return f"f({d.one(small)})"
        if k < 11:
            return f"({d.one(SYMS)},{d.one(small)})"
        return '"s"'
    return str(d.one(small if d.p(70) else ints))


def instance(
    draw: Callable,
    in_sigs: Iterable[Sig],
    src: str,
    sorts: Optional[dict[str, str]] = None,
    max_per_pred: int = 5,
    max_total: int = 12,
) -> tuple[str, str]:
    """(facts, class label) over the given signatures"""
    d = D(draw)
    sigs = sorted(in_sigs)
    if not sigs:
        return "", "empty"
    ints = int_pool(src)
    cls = d.one(["free", "free", "free", "dense", "single", "ties", "negzero", "gaps", "mixed", "cluster", "cluster"])
    mode = "mixed" if cls == "mixed" or d.p(12) else "int"
    small = {
        "free": [0, 1, 2, 3],
        "dense": [1, 2],
        "single": ints,
        "ties": [1, 2, 3],
        "negzero": [-2, -1, 0, 1],
        "gaps": [-1, 2, 5, 9],
        "mixed": [0, 1, 2],
        "cluster": [1, 2, 3],
    }[cls]
    facts: list[str] = []
    for name, arity in sigs:
        srt = (sorts or {}).get(name)
        if srt is None or len(srt) != arity:
            srt = "m" * arity
        if cls == "single":
            k = 1 if d.p(60) else 0
        elif cls == "dense":
            k = d.i(2, max_per_pred)
        else:
            k = d.i(0, max_per_pred)
        rows: list[list[str]] = []
        if cls == "cluster" and arity > 0:
            # several atoms that agree everywhere except at one position (k matching atoms of a join, a group with several values)
            pos = d.i(0, arity - 1)
            for _ in range(d.i(1, 2)):
                base = [_value(d, s, ints, small, mode) for s in srt]
                rows.append(base)
                for _ in range(d.i(1, 3)):
                    row = list(base)
                    row[pos] = _value(d, srt[pos], ints, ints, mode)
                    rows.append(row)
            k = 0
        for _ in range(k):
            if arity == 0:
                rows.append([])
                break
            if cls == "ties" and rows and d.p(60):
                # copy a row and change one position: equal values in the other positions
                row = list(d.one(rows))
                pos = d.i(0, arity - 1)
                row[pos] = _value(d, srt[pos], ints, small, mode)
                rows.append(row)
            else:
                rows.append([_value(d, s, ints, small, mode) for s in srt])
        for row in rows:
            facts.append(name + (f"({','.join(row)})" if row else "") + ".")
        if len(facts) >= max_total:
            break
    if facts and d.p(8):
        facts.append(d.one(facts))  # duplicate fact
    return " ".join(facts[: max_total + 1]), cls


def instances(
    draw: Callable, in_sigs: Iterable[Sig], src: str, count: int, sorts: Optional[dict[str, str]] = None
) -> tuple[list[str], list[str]]:
    """`count` instances, the first one empty; returns (facts list, class labels)"""
    in_sigs = list(in_sigs)
    out = [""]
    labels = ["empty"]
    for _ in range(max(0, count - 1)):
        f, c = instance(draw, in_sigs, src, sorts)
        out.append(f)
        labels.append(c if f else "empty")
    return out, labels


def trait_subset(draw: Callable, allowed: Optional[list[str]] = None) -> list[str]:
    """subset of the traits, weighted towards default / all / none / singletons / pairs"""
    d = D(draw)
    allowed = list(allowed or TRAITS)
    k = d.i(0, 19)
    if k < 5:
        res = [t for t in DEFAULT_TRAITS if t in allowed]
    elif k < 8:
        res = list(allowed)
    elif k < 9:
        res = []
    elif k < 13:
        res = [d.one(allowed)]
    elif k < 16:
        res = sorted({d.one(allowed), d.one(allowed)}, key=allowed.index)
    else:
        res = d.subset(allowed, 50)
    return res


def trait_subset_light(draw: Callable, allowed: Optional[list[str]] = None) -> list[str]:
    """like trait_subset, but `math` (sympy: 10-100 times slower than all other passes together, and the subject of C14's own
    check) is dropped from six of ten subsets that contain it, so that the umbrella checks see more programs per second"""
    res = trait_subset(draw, allowed)
    if "math" in res and D(draw).p(60):
        res = [t for t in res if t != "math"]
    return res


def declarations(
    draw: Callable,
    undefined: set[Sig],
    defined: set[Sig],
    voc: set[Sig],
    allow_auto: bool = True,
    extra_in_percent: int = 25,
) -> tuple[object, object, str]:
    """(IN, OUT, label): IN always contains every predicate without a defining rule"""
    d = D(draw)
    k = d.i(0, 19)
    if allow_auto and k < 4:
        return "auto", "auto", "auto/auto"
    in_sigs = set(undefined)
    if d.p(extra_in_percent):
        in_sigs |= set(d.subset(sorted(defined), 35))
    IN: object = [list(s) for s in sorted(in_sigs)]
    if allow_auto and k < 6:
        IN = "auto"
    k2 = d.i(0, 19)
    vocs = sorted(voc)
    if k2 < 2 and allow_auto:
        OUT: object = "auto"
        lab = "auto"
    elif k2 < 4:
        OUT, lab = [], "empty"
    elif k2 < 10:
        OUT, lab = [list(s) for s in vocs], "voc"
    elif k2 < 12:
        OUT, lab = [list(s) for s in vocs] + [["absent_pred", 1], ["__aux_1", 1]], "voc+absent"
    else:
        OUT, lab = [list(s) for s in d.subset(vocs, 50)], "subset"
    return IN, OUT, ("auto" if IN == "auto" else "explicit") + "/" + lab


def const_overrides(draw: Callable, src: str) -> dict[str, int]:
    """`-c` overrides for the #const statements of the program (integers only)"""
    d = D(draw)
    names = re.findall(r"#const\s+([a-z][A-Za-z0-9_]*)\s*=", src)
    out = {}
    for n in names:
        if d.p(40):
            out[n] = d.i(-1, 4)
    return out
