"""Constructs the traits do not optimise (C03 / C07): they must be passed through, never abort the run."""

from typing import Callable

from .templates import T

THEORY = """#theory dl {
  term { + : 1, binary, left; - : 1, binary, left; - : 2, unary };
  &diff/0 : term, {<=, >=}, term, any;
  &show/0 : term, directive
}."""

EXTRA = [
    # head aggregates of every function, with and without guards
    "1 <= #sum{ 1,X : ha(X) : p(X) } <= 2.",
    "#sum{ X,X : ha(X) : p(X); 2 : hb } = 3 :- q(_,_).",
    "#count{ X : ha(X) : p(X) } 1 :- p(Y), Y > 1.",
    "#count{ X,Y : hc(X,Y) : q(X,Y) }.",
    "#min{ X : ha(X) : p(X) } >= 1.",
    "#max{ X : ha(X) : p(X) } = 2 :- hb.",
    "#sum+{ X : ha(X) : p(X) } > 0.",
    "2 { ha(X) : p(X) } 3.",
    "{ ha(X) : p(X) ; hb } != 1.",
    # guard-less / two-guard / several body aggregates
    "ga :- #sum{ 1 : hb }.",
    "ga :- #count{ X : p(X) }.",
    "ga :- #min{ X : p(X) }.",
    "ga :- #max{ X : p(X) }.",
    "ga :- not #sum{ X : p(X) }.",
    "ga(N) :- N = #sum{ X : p(X) }, #count{ Y : q(Y,_) } > 1, #max{ Z : p(Z) } < 5.",
    "ga :- 1 < #sum{ X : p(X) } < 4, 0 <= #min{ Y : q(Y,_) } <= 3.",
    "ga :- 1 <= #max{ X : p(X) } <= 2.",
    "ga :- 1 != #min{ X : p(X) } != 2.",
    "ga(X,Y) :- X = #min{ A : p(A) }, Y = #max{ B : p(B) }.",
    "ga :- { p(X) } 2.",
    "ga :- 1 { p(X) ; q(X,Y) : p(Y) }.",
    "ga :- { p(X) }.",
    "ga :- #sum{ : p(X) } >= 0.",
    "ga(N) :- N = #count{ : hb }.",
    "ga :- p(X), X \\ 0 = 1.",
    "ga :- p(X), X / 0 > 1.",
    "ga(X / 0) :- p(X).",
    # #inf / #sup, strings, classical negation, pools, intervals
    "ga(#inf). ga(#sup).",
    "ga(X) :- p(X), X > #inf, X < #sup.",
    'gs("str"). gs(X) :- gs(X), X != "other".',
    "-neg(X) :- p(X), not neg(X).",
    ":- neg(X), -neg(X).",
    "gp(1;2;3). gp(X,Y) :- gp(X), gp(Y), p(X;Y).",
    "gi(1..3,a). gi(X..Y) :- gi(X,_), gi(Y,_).",
    "gf(f(X),g(X,h(1))) :- p(X).",
    "gt((X,Y)) :- q(X,Y). gt(()) :- hb. gt((X,)) :- p(X).",
    # directives
    "#external ex(X) : p(X).",
    "#external ex0.",
    "#external ex1. [true]",
    "#heuristic ha(X) : p(X). [X@1,true]",
    "#heuristic hb. [1,sign]",
    "#edge (X,Y) : q(X,Y).",
    "#edge (a,b).",
    "#project ha/1.",
    "#project ha(X) : p(X).",
    "#show ha/1.",
    "#show.",
    "#show X : p(X).",
    "#show -neg/1.",
    "#defined undefd/2.",
    "#const cc = 3.",
    "ga :- undefd(X,Y), X < cc.",
    # disjunctions with conditions, choice with conditions and bounds
    "da(X) : p(X) ; db :- hb.",
    "da(X) ; db(X) ; dc :- p(X).",
    "1 { ca(X,Y) : q(X,Y) } 1 :- p(X).",
    "{ ca(X,Y) : q(X,Y), not p(Y) ; cb(X) } :- p(X).",
    # weak constraints / minimize corner cases
    ":~ . [1@1]",
    ":~ hb. [1]",
    ":~ p(X). [X@X,X]",
    '#minimize{ X@1,"s",f(X) : p(X); -1@2 : hb }.',
    "#maximize{ X : p(X) }.",
    # arithmetic corner cases
    "ar(X**2, X/2, X\\2, |X|, -X, ~X, X&1, X?2, X^3) :- p(X).",
    "ar(X) :- p(Y), X = Y..Y+1.",
    "ar(X) :- p(X), X = 1..3, X != 2.",
    "ar(X+0) :- X = #sum{ Y : p(Y) }.",
    # boolean constants
    "ba :- #true. bb :- #false. bc :- not #true. :- #false.",
    "ba(X) :- p(X), #true : hb. ",
    # comparisons in heads / conditions
    "X < 3 :- p(X).",
    "{ ha(X) : p(X), X != 2 } :- 1 < 2.",
]

THEORY_STMS = [
    "&diff{ X - Y } <= 3 :- q(X,Y).",
    "&diff{ a - b } >= -1.",
    "&show{ ha }.",
    "ga :- &diff{ X - 1 } <= 2, p(X).",
]

OTHER_PARTS = [
    "#program step(t). st(t) :- p(t).",
    "#program extra. ex2 :- hb.",
]


def extras(draw: Callable, maximum: int = 4) -> tuple[list[str], list[str]]:
    """(statements, labels)"""
    t = T(draw)
    out = []
    labels = []
    for _ in range(t.i(1, maximum)):
        out.append(t.one(EXTRA))
    if t.p(12):
        out.insert(0, THEORY)
        out.append(t.one(THEORY_STMS))
        labels.append("theory")
    if t.p(8):
        out.append(t.one(OTHER_PARTS))
        labels.append("program_part")
    return out, labels
