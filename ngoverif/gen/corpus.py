"""Corpus seeds: the 401 distinct input programs of /repo/tests (committed snapshot, DESIGN.md 3.3).

About a tenth of them are not valid clingo programs; the partition is made at load
time by asking clingo, and only the valid part feeds semantic checks.
"""

import json
import os
from functools import lru_cache
from typing import Optional

from .. import astutil, oracle
from ..env import VERIF

FILE2TRAIT = {
    "test_math_simplification.py": "math",
    "test_minmax_aggregates.py": "minmax_chains",
    "test_inline.py": "inline",
    "test_literal_duplication.py": "duplication",
    "test_sum_aggregates.py": "sum_chains",
    "test_cleanup.py": "cleanup",
    "test_symmetry.py": "symmetry",
    "test_unused.py": "unused",
    "test_projection.py": "projection",
}


@lru_cache(maxsize=None)
def load() -> list[dict]:
    """all corpus entries: {file, idx, src, valid, trait}"""
    entries = []
    for fname in ("corpus.json", "extra.json"):
        path = os.path.join(VERIF, "corpus", fname)
        if os.path.exists(path):
            with open(path, encoding="utf8") as fh:
                entries.extend(json.load(fh))
    out = []
    for e in entries:
        src = e["src"].strip("\n")
        prg = oracle.try_parse(src)
        valid = False
        if prg is not None and not astutil.may_ground_infinitely(prg):
            valid = oracle.grounds(src).status == "ok"
        types = set()
        if prg is not None:
            for s in prg:
                types |= astutil.node_types(s)
        out.append(
            {
                "file": e["file"],
                "idx": e["idx"],
                "src": src,
                "valid": valid,
                "parses": prg is not None,
                "trait": FILE2TRAIT.get(e["file"]),
                "types": types,
            }
        )
    return out


def valid(trait: Optional[str] = None, files: Optional[list[str]] = None) -> list[dict]:
    """valid entries, optionally those of one trait's test file"""
    res = [e for e in load() if e["valid"]]
    if trait:
        res = [e for e in res if e["trait"] == trait]
    if files:
        res = [e for e in res if e["file"] in files]
    return res


def has_objective(e: dict) -> bool:
    """program contains #minimize / #maximize / weak constraints"""
    return "Minimize" in e["types"]
