"""AST mutation operators for corpus seeds (DESIGN.md 3.3); every choice is a Hypothesis draw."""

from typing import Callable, Optional

from clingo.ast import (
    AST,
    AggregateFunction,
    ASTType,
    ComparisonOperator,
    Function,
    Sign,
    SymbolicTerm,
    Variable,
)
from clingo.symbol import Number
from hypothesis import strategies as st

from .. import astutil, oracle

CMP = [
    ComparisonOperator.Equal,
    ComparisonOperator.NotEqual,
    ComparisonOperator.LessThan,
    ComparisonOperator.LessEqual,
    ComparisonOperator.GreaterThan,
    ComparisonOperator.GreaterEqual,
]
AGG = [AggregateFunction.Sum, AggregateFunction.SumPlus, AggregateFunction.Count, AggregateFunction.Min, AggregateFunction.Max]
NGO_NAMES = ["__aux_1", "__aux_2", "__dom_p", "__min_0_0__dom_p", "__max_0_0__dom_p", "__next_0_0__dom_p", "__chain_0_0__min___dom_p", "__agg", "unique", "anon__ngo", "__min_0_1", "__max_0_1"]


def rewrite(node: AST, fn: Callable[[AST], Optional[AST]]) -> AST:
    """rebuild node bottom-up; fn may replace a node (return None to keep and descend)"""
    new = fn(node)
    if new is not None:
        return new
    changes = {}
    for key in node.child_keys:
        ch = getattr(node, key)
        if ch is None:
            continue
        if isinstance(ch, AST):
            r = rewrite(ch, fn)
            if r is not ch:
                changes[key] = r
        else:
            lst = [rewrite(x, fn) if isinstance(x, AST) else x for x in ch]
            if any(a is not b for a, b in zip(lst, ch)):
                changes[key] = lst
    return node.update(**changes) if changes else node


def _nth(stm: AST, pred: Callable[[AST], bool], n: int, repl: Callable[[AST], AST]) -> AST:
    counter = {"k": 0}

    def fn(node: AST) -> Optional[AST]:
        if pred(node):
            k = counter["k"]
            counter["k"] += 1
            if k == n:
                return repl(node)
        return None

    return rewrite(stm, fn)


def _count(stm: AST, pred: Callable[[AST], bool]) -> int:
    return sum(1 for n in astutil.walk(stm) if pred(n))


class M:
    """mutation driver"""

    def __init__(self, draw: Callable):
        self.draw = draw

    def i(self, lo: int, hi: int) -> int:
        """integer"""
        return self.draw(st.integers(lo, hi))

    def one(self, seq: list):
        """element"""
        return self.draw(st.sampled_from(seq))

    # each operator returns the new statement list (or None when not applicable)
    def op_comparison(self, stms: list[AST], k: int) -> Optional[list[AST]]:
        """change a comparison / guard operator"""
        is_guard = lambda n: n.ast_type == ASTType.Guard
        c = _count(stms[k], is_guard)
        if not c:
            return None
        new = self.one(CMP)
        stms[k] = _nth(stms[k], is_guard, self.i(0, c - 1), lambda g: g.update(comparison=new))
        return stms

    def op_aggfun(self, stms: list[AST], k: int) -> Optional[list[AST]]:
        """change an aggregate function"""
        is_agg = lambda n: n.ast_type in (ASTType.BodyAggregate, ASTType.HeadAggregate)
        c = _count(stms[k], is_agg)
        if not c:
            return None
        new = self.one(AGG)
        stms[k] = _nth(stms[k], is_agg, self.i(0, c - 1), lambda a: a.update(function=new))
        return stms

    def op_number(self, stms: list[AST], k: int) -> Optional[list[AST]]:
        """perturb an integer constant"""
        is_num = lambda n: n.ast_type == ASTType.SymbolicTerm and n.symbol.type.name == "Number"
        c = _count(stms[k], is_num)
        if not c:
            return None
        how = self.i(0, 4)

        def repl(t: AST) -> AST:
            v = t.symbol.number
            nv = [v + 1, v - 1, 0, -v, self.i(-2, 4)][how]
            return t.update(symbol=Number(nv))

        stms[k] = _nth(stms[k], is_num, self.i(0, c - 1), repl)
        return stms

    def op_args(self, stms: list[AST], k: int) -> Optional[list[AST]]:
        """swap / anonymise / replace an argument of an atom"""
        is_atom = lambda n: n.ast_type == ASTType.SymbolicAtom and n.symbol.ast_type == ASTType.Function and len(n.symbol.arguments) > 0
        c = _count(stms[k], is_atom)
        if not c:
            return None
        vars_ = sorted(set(astutil.variables_in(stms[k])) - {"_"})
        how = self.i(0, 4)
        a = self.i(0, 7)
        b = self.i(0, 7)
        pick = self.i(0, 99)

        def repl(atom: AST) -> AST:
            args = list(atom.symbol.arguments)
            i, j = a % len(args), b % len(args)
            loc = atom.symbol.location
            if how == 0 and len(args) > 1:
                args[i], args[j] = args[j], args[i]
            elif how == 1:
                args[i] = Variable(loc, "_")
            elif how == 2 and vars_:
                args[i] = Variable(loc, vars_[pick % len(vars_)])
            elif how == 3:
                args[i] = SymbolicTerm(loc, Number(pick % 5 - 1))
            else:
                args[i] = args[j]
            return atom.update(symbol=atom.symbol.update(arguments=args))

        stms[k] = _nth(stms[k], is_atom, self.i(0, c - 1), repl)
        return stms

    def op_sign(self, stms: list[AST], k: int) -> Optional[list[AST]]:
        """change the sign of a literal"""
        is_lit = lambda n: n.ast_type == ASTType.Literal
        c = _count(stms[k], is_lit)
        if not c:
            return None
        new = self.one([Sign.NoSign, Sign.Negation, Sign.DoubleNegation])
        stms[k] = _nth(stms[k], is_lit, self.i(0, c - 1), lambda l: l.update(sign=new))
        return stms

    def op_body(self, stms: list[AST], k: int) -> Optional[list[AST]]:
        """delete / duplicate / move a body literal"""
        stm = stms[k]
        if stm.ast_type not in (ASTType.Rule, ASTType.Minimize) or not stm.body:
            return None
        body = list(stm.body)
        i = self.i(0, len(body) - 1)
        how = self.i(0, 2)
        if how == 0 and len(body) > 1:
            del body[i]
        elif how == 1:
            body.append(body[i])
        else:
            body.append(body.pop(i))
        stms[k] = stm.update(body=body)
        return stms

    def op_borrow(self, stms: list[AST], k: int) -> Optional[list[AST]]:
        """copy a body literal from another statement"""
        donors = [s for s in stms if s.ast_type in (ASTType.Rule, ASTType.Minimize) and s.body]
        stm = stms[k]
        if not donors or stm.ast_type not in (ASTType.Rule, ASTType.Minimize):
            return None
        d = self.one(donors)
        lit = self.one(list(d.body))
        stms[k] = stm.update(body=list(stm.body) + [lit])
        return stms

    def op_dupstm(self, stms: list[AST], k: int) -> Optional[list[AST]]:
        """duplicate a statement"""
        stms.insert(k, stms[k])
        return stms

    def op_delstm(self, stms: list[AST], k: int) -> Optional[list[AST]]:
        """delete a statement"""
        if len(stms) < 2:
            return None
        del stms[k]
        return stms

    def op_rename(self, stms: list[AST], k: int) -> Optional[list[AST]]:
        """rename a predicate everywhere (to another predicate of the program or to an ngo-shaped name)"""
        voc = sorted(astutil.vocabulary(stms))
        if not voc:
            return None
        old = self.one(voc)
        same_arity = [n for n, a in voc if a == old[1] and n != old[0]]
        other_arity = [n for n, a in voc if a != old[1] and n != old[0]]
        k = self.i(0, 9)
        if same_arity and k < 5:
            new = self.one(same_arity)
        elif other_arity and k < 8:
            new = self.one(other_arity)  # same name, different arity: p/2 next to p/3
        else:
            new = self.one(NGO_NAMES)

        def fn(node: AST) -> Optional[AST]:
            if node.ast_type == ASTType.SymbolicAtom and node.symbol.ast_type == ASTType.Function:
                if node.symbol.name == old[0] and len(node.symbol.arguments) == old[1]:
                    return node.update(symbol=node.symbol.update(name=new))
            if node.ast_type in (ASTType.ShowSignature, ASTType.ProjectSignature, ASTType.Defined):
                if node.name == old[0] and node.arity == old[1]:
                    return node.update(name=new)
            return None

        return [rewrite(s, fn) for s in stms]

    def op_guardswap(self, stms: list[AST], k: int) -> Optional[list[AST]]:
        """move the left guard of a body aggregate to the right or drop / add a second guard"""
        is_agg = lambda n: n.ast_type == ASTType.BodyAggregate
        c = _count(stms[k], is_agg)
        if not c:
            return None
        how = self.i(0, 2)

        def repl(a: AST) -> AST:
            if how == 0:
                return a.update(left_guard=a.right_guard, right_guard=a.left_guard)
            if how == 1 and a.left_guard is not None:
                return a.update(right_guard=a.left_guard)
            return a.update(right_guard=None)

        stms[k] = _nth(stms[k], is_agg, self.i(0, c - 1), repl)
        return stms

    OPS = ["comparison", "aggfun", "number", "number", "args", "args", "sign", "body", "body", "borrow", "dupstm", "delstm", "rename", "guardswap"]

    def mutate(self, src: str, max_ops: int = 3, join_lines: bool = True) -> tuple[str, list[str]]:
        """(mutated program text, applied operator names); the mutant is not validated here"""
        prg = oracle.try_parse(src)
        if not prg:
            return src, []
        stms = [s for s in prg if not (s.ast_type == ASTType.Program and s.name == "base" and not s.parameters)]
        applied = []
        for _ in range(self.i(0, max_ops)):
            if not stms:
                break
            name = self.one(self.OPS)
            k = self.i(0, len(stms) - 1)
            try:
                res = getattr(self, "op_" + name)(list(stms), k)
            except Exception:  # pylint: disable=broad-except
                res = None
            if res is not None:
                stms = res
                applied.append(name)
        lines = [str(s) for s in stms]
        if join_lines and len(lines) > 1 and self.i(0, 9) < 2:
            i = self.i(0, len(lines) - 2)
            lines[i : i + 2] = [lines[i] + " " + lines[i + 1]]
            applied.append("joinline")
        return "\n".join(lines), applied


def mutant(draw: Callable, src: str, max_ops: int = 3) -> tuple[str, list[str]]:
    """mutate src; fall back to src itself when the mutant is not a valid clingo program"""
    text, applied = M(draw).mutate(src, max_ops)
    if not applied:
        return src, []
    prg = oracle.try_parse(text)
    if prg is None or astutil.may_ground_infinitely(prg) or oracle.grounds_guarded(text) != "ok":
        return src, ["invalid_mutant"]
    return text, applied
