"""Pass-shaped templates (DESIGN.md 3.2): shapes written from each pass's trigger conditions,
with the degrees of freedom the property texts list left as Hypothesis draws, embedded in a
small random context.  clingo stays the judge of validity.

Vocabulary of the templates: p/1 q/2 r/2 (integer data, usually inputs), d/1 (domain fact range),
s/1 sel/2 (choice-defined), derived predicates named by the shapes.
"""

from typing import Callable

from hypothesis import strategies as st

OPS = ["=", "!=", "<", "<=", ">", ">="]


class T:
    """drawing helper"""

    def __init__(self, draw: Callable):
        self.draw = draw

    def i(self, lo: int, hi: int) -> int:
        """integer"""
        return self.draw(st.integers(lo, hi))

    def p(self, percent: int) -> bool:
        """biased coin"""
        return self.draw(st.integers(0, 99)) < percent

    def one(self, seq: list):
        """element"""
        return self.draw(st.sampled_from(seq))

    def op(self) -> str:
        """comparison operator"""
        return self.one(OPS)

    def num(self, lo: int = -1, hi: int = 3) -> str:
        """small integer"""
        return str(self.i(lo, hi))

    def neg(self, percent: int = 25) -> str:
        """optional default negation prefix"""
        if self.p(percent):
            return self.one(["not ", "not ", "not not "])
        return ""

    # ---- context: how the data predicates are defined
    def context(self, preds: list[str]) -> list[str]:
        """defining statements for some of p/1 q/2 r/2 d/1 (the others stay inputs)"""
        out = []
        for name in preds:
            k = self.i(0, 9)
            if k < 5:
                continue  # input
            if name in ("p", "d"):
                lo = self.i(-1, 2)
                if k < 7:
                    out.append(f"{name}({lo}..{lo + self.i(0, 3)}).")
                elif k < 8:
                    out.append(f"{name}({self.num()}). {name}({self.num(2, 6)}).")
                elif k < 9:
                    out.append(f"{{ {name}(X) : d0(X) }}. d0(0..2).")
                else:
                    out.append(f"{name}(X) :- d0(X), not n{name}(X). n{name}(X) :- d0(X), not {name}(X). d0(1..2).")
            else:
                lo = self.i(0, 1)
                if k < 7:
                    out.append(f"{name}({lo}..{lo + 1},{self.num()}..{self.num(2, 4)}).")
                elif k < 8:
                    out.append(f"{name}(1,{self.num()}). {name}(2,{self.num()}). {name}(1,{self.num(2, 5)}).")
                elif k < 9:
                    out.append(f"{{ {name}(X,Y) : e0(X,Y) }}. e0(1..2,0..2).")
                else:
                    out.append(f"{name}(X,Y) :- e0(X,Y), not n{name}(X,Y). n{name}(X,Y) :- e0(X,Y), not {name}(X,Y). e0(1,1..2).")
        return out


# ---------------------------------------------------------------- normalisation (C05)
def _n_oldagg(t: T) -> str:
    elems = []
    for _ in range(t.i(1, 3)):
        k = t.i(0, 7)
        if k == 0:
            elems.append(f"{t.neg(40)}q(X,Y) : r(X,Y)")
        elif k == 1:
            elems.append(f"{t.neg(50)}q(X,_)")
        elif k == 2:
            elems.append(t.one(["r(_,X) : p(X)", "q(_,_)", "r(_,_) : p(X)", "q(_,_) : r(X,_)"]))
        elif k == 3:
            elems.append(f"not q(_,X)")
        elif k == 4:
            elems.append(f"q(X,Y) : r(Y,_), Y {t.op()} {t.num()}")
        elif k == 5:
            elems.append(f"q(X,{t.num()}..{t.num(2, 4)})")
        elif k == 6:
            elems.append(f"X {t.op()} {t.num()}")
        else:
            elems.append(t.one(["#true", "#false", "p(X+1)", "not p(X-1)"]))
    lg = t.one(["", "", f"{t.num(0, 2)} ", f"{t.num(0, 2)} {t.one(['<=', '<', '=', '!='])} "])
    rg = t.one(["", "", f" {t.num(0, 3)}", f" {t.one(['<=', '<', '=', '!=', '>'])} {t.num(0, 3)}"])
    return f"h(X) :- p(X), {t.neg(30)}{lg}{{ {'; '.join(elems)} }}{rg}."


def _n_count(t: T) -> str:
    fn = t.one(["#count", "#count", "#sum", "#sum+", "#min", "#max"])
    elems = []
    for _ in range(t.i(1, 2)):
        elems.append(t.one([f"Y : q(X,Y)", f"Y,Z : q(X,Y), r(Y,Z)", f"{t.num()},Y : q(Y,X), {t.neg(100)}p(Y)", "Y : q(X,Y), Y = 1..3", "X : p(X)", f"Y+{t.num()} : r(X,Y)"]))
    body = f"{fn}{{ {'; '.join(elems)} }}"
    k = t.i(0, 7)
    if k == 0:
        lit = f"#inf <= {body} <= #sup"
    elif k == 1:
        lit = f"#inf <= {body} {t.one(['<=', '<', '!='])} {t.num(0, 4)}"
    elif k == 2:
        lit = f"{t.num(0, 2)} <= {body} <= #sup"
    elif k == 3:
        lit = f"#sup >= {body} >= #inf"
    elif k == 4:
        lit = f"{body} {t.op()} {t.num(0, 3)}"
    elif k == 5:
        lit = f"{t.num(0, 2)} {t.one(['<=', '<', '!='])} {body} {t.one(['<=', '<', '!='])} {t.num(1, 4)}"
    elif k == 6:
        lit = f"{body} >= #inf"
    else:
        lit = f"N = {body}, N {t.op()} {t.num(0, 3)}"
    return f"h(X) :- p(X), {t.neg(30) if 'N =' not in lit else ''}{lit}."


def _n_chain(t: T) -> str:
    chain = f"{t.num()} {t.one(['<', '<=', '!='])} X {t.one(['<', '<=', '!=', '='])} Y {t.one(['<', '<=', '!='])} {t.num(1, 5)}"
    k = t.i(0, 3)
    if k == 0:
        return f"h(X,Y) :- p(X), p(Y), {t.neg(30)}{chain}."
    if k == 1:
        return f"h(X) :- p(X), #sum{{ Y : q(X,Y), {chain} }} {t.op()} {t.num(0, 3)}."
    if k == 2:
        return f"h(X) :- p(X), r(X,Y) : q(X,Y), {chain}."
    return f"{{ h(X,Y) : q(X,Y), {chain} }} :- p(X)."


def _n_pool(t: T) -> str:
    return t.one(
        [
            "h(X;Y) :- q(X,Y).",
            "h(X) :- p(X;X+1).",
            f"h(X) :- q(X,({t.num()};{t.num()})).",
            f"h(X) :- p(X), not p({t.num()};{t.num()}).",
            f"h(X) :- p(X), #sum{{ Y : q(X,Y;Y,X) }} {t.op()} {t.num(0, 3)}.",
            "h((X;Y),1) :- q(X,Y), X < Y.",
            f"{{ h(X;X+1) }} :- p(X).",
            f"h(X) :- p(X), r(X;{t.num()},_).",
            f":~ q(X,Y;Y,X). [X@{t.num(0, 1)},Y]",
        ]
    )


def _n_arith(t: T) -> str:
    return t.one(
        [
            f"h(X+{t.num()}) :- p(X).",
            f"h(X*{t.num()},Y) :- q(X,Y).",
            f"h(X) :- p(X), q(X+{t.num()},Y-1).",
            f"h(X) :- p(X), {t.neg(100)}q(X-1,X+{t.num()}).",
            f"h(X) :- p(X), r(X,Y+1) : q(X,Y).",
            f"{{ h(X,Y+1) : q(X,Y) }} :- p(X).",
            f"h(X) :- p(X), #sum{{ Y : q(X+1,Y) }} {t.op()} {t.num(0, 3)}.",
            f"h(X,Y) :- p(X), Y = X*{t.num()}+{t.num()}.",
            f"h(Y) :- p(X), Y = X+{t.num()}, {t.neg(60)}q(Y,X).",
            f"h(Y) :- p(X), X = Y+{t.num()}.",
            f"h(Y) :- p(X), q(Y,Z), Y = X, Z {t.op()} X.",
            f"h(X) :- p(X), X = X+{t.num(0, 1)}.",
            f"h(X) :- p(X), X = f(X).",
            f"h(X) :- p(X), X = X*{t.num(0, 3)}.",
            f"h(X) :- p(X), not X != X*{t.num(1, 2)}.",
            f"h(X) :- p(X), p(Y), #sum{{ Z : q(X,Z), X = Y }} {t.op()} {t.num(0, 3)}.",
            f"h(X) :- p(X), #sum{{ Z : q(X,Y), Z = Y*{t.num()} }} {t.op()} {t.num(0, 3)}.",
            f"h(X) :- p(X), #sum{{ Z : q(X,Y), Y = Z+{t.num()} }} {t.op()} {t.num(0, 3)}.",
            f"h(X) :- p(X), r(X,Z) : q(X,Y), Z = Y+{t.num()}.",
            f"h(X) :- p(X), Y = {t.num()}..{t.num(2, 4)}, q(X,Y).",
            f"h(X,Y) :- p(X), Y = (X;X+1).",
            f":~ q(X,Y). [X+Y@{t.one(['0', '1', 'X', 'X-1'])},f(X*2)]",
            f":~ p(X), Y = X*2. [Y@1,Y]",
            f"#minimize{{ X*Y@1,X : q(X,Y) }}.",
            f"#maximize{{ X-{t.num()},X : p(X) ; Y,a : q(_,Y) }}.",
            f"h(|X|) :- p(X).",
            f"h(X/2,X\\2) :- p(X).",
            f"h(-X) :- p(X).",
            f"h(X) :- p(X), Y = -X, q(Y,_).",
        ]
    )


def _n_headagg(t: T) -> str:
    return t.one(
        [
            f"{t.num(0, 1)} {{ h(X,Y) : q(X,Y) }} {t.num(1, 2)} :- p(X).",
            f"{t.num(0, 1)} <= #count{{ Y : h(X,Y) : q(X,Y) }} <= {t.num(1, 2)} :- p(X).",
            f"#sum{{ Y,X : h(X,Y) : q(X,Y) }} {t.one(['<=', '<', '=', '>='])} {t.num(0, 3)} :- p(X).",
            f"{t.num(0, 2)} #sum{{ Y : h(X,Y) : q(X,Y); 1 : g(X) }} :- p(X).",
            f"h(X) ; g(X) :- p(X), {t.neg(100)}r(X,_).",
            f"h(X) : q(X,Y) ; g(X) :- p(X).",
            f"#min{{ Y : h(Y) : q(X,Y) }} {t.op()} {t.num(0, 2)} :- p(X).",
        ]
    )


NORMALIZE_SHAPES = {
    "oldagg": _n_oldagg,
    "count_infsup": _n_count,
    "chain": _n_chain,
    "pool": _n_pool,
    "arith": _n_arith,
    "headagg": _n_headagg,
}


def normalize_program(draw: Callable) -> tuple[str, str]:
    """(program, shape names) for the normalisation steps"""
    t = T(draw)
    names = [t.one(sorted(NORMALIZE_SHAPES)) for _ in range(t.i(1, 3))]
    stms = [NORMALIZE_SHAPES[n](t) for n in names]
    if t.p(50):
        stms.append(t.one([":- h(X), p(X+1).", "g(X) :- h(X), not p(X).", ":~ h(X). [X@1]", ":~ h(X,Y). [Y,X]", "{ g(X) } :- h(X).", "g(X) :- h(X,_)."]))
    stms = t.context(["p", "q", "r"]) + stms
    if t.p(20):
        stms.append(t.one(["#show h/1.", "#show h/2.", "#show g/1.", "#show X : h(X)."]))
    return "\n".join(stms), "+".join(sorted(set(names)))


# ---------------------------------------------------------------- cleanup (C08)
def _args(t: T, vars_: list[str], n: int, allow_anon: bool = True) -> str:
    out = []
    for _ in range(n):
        k = t.i(0, 11)
        if k < 8:
            out.append(t.one(vars_))
        elif k < 9 and allow_anon:
            out.append("_")
        elif k < 10:
            out.append(t.num(0, 2))
        elif k < 11:
            out.append(f"f({t.one(vars_)})")
        else:
            out.append(f"{t.one(vars_)}+1")
    return ",".join(out)


def cleanup_program(draw: Callable) -> tuple[str, str]:
    """heads implying body atoms; users whose literals are / are not implied"""
    t = T(draw)
    names = []
    stms: list[str] = []
    vs = ["X", "Y"]
    # defining rules of h/2 (1..3 of them, different bodies and head kinds); the first literal binds X and Y
    nrules = t.i(1, 3)
    # most programs have a "witness": a literal every defining rule of h contains (so h really implies it);
    # the users below then mention the corresponding instance next to h / k
    witness = t.one(["p(X)", "p(Y)", "r(X,Y)", "q(X,Y)", "not s(X)", "r(Y,X)"]) if t.p(65) else ""
    for _ in range(nrules):
        hargs = t.one(["X,Y", "X,Y", "X,Y", "Y,X", "X,X", "X,1", "X,f(Y)"])
        body = [t.one(["q(X,Y)", "q(X,Y)", "q(Y,X)", "r(X,Y)", "p(X), p(Y)"])]
        if witness and witness not in body:
            body.append(witness)
        for _ in range(t.i(0, 2)):
            body.append(t.one([f"p({_args(t, vs, 1, False)})", f"r({_args(t, vs, 2)})", f"q({_args(t, vs, 2)})", f"{t.neg(100)}p({t.one(vs)})", f"{t.neg(100)}r({_args(t, vs, 2, False)})", f"X {t.op()} Y", "p(X)", "p(Y)", "q(X,Y)", "r(Y,X)"]))
        k = t.i(0, 9)
        if t.p(30):
            body = body[1:] + body[:1]
        b = ", ".join(body)
        if k < 5:
            stms.append(f"h({hargs}) :- {b}.")
            names.append("plain")
        elif k < 7:
            stms.append(f"{{ h({hargs}) : {body[0]} }} :- {', '.join(body[1:]) or 'p(0)'}." if len(body) == 1 or t.p(50) else f"{{ h({hargs}) : {body[-1]} }} :- {', '.join(body[:-1])}.")
            names.append("choice")
        elif k < 8:
            stms.append(f"h({hargs}) ; g(X) :- {b}.")
            names.append("disjunction")
        elif k < 9:
            stms.append(f"#sum{{ 1,Y : h({hargs}) : {body[-1]} }} <= 1 :- {', '.join(body[:-1]) or 'q(X,Y)'}.")
            names.append("headagg")
        else:
            stms.append(f"h({hargs}) : {body[-1]} :- {', '.join(body[:-1]) or 'q(X,Y)'}.")
            names.append("condhead")
    if t.p(45):  # implication chain through a second predicate (positively, or - which must stop the chain - negatively)
        stms.append(
            t.one(
                [
                    "k(X,Y) :- h(X,Y), p(X).", "k(X,Y) :- h(Y,X).", "k(X,Y) :- h(X,Y), not r(X,Y).", "k(X,Y) :- h(X,Y). k(X,Y) :- q(X,Y), p(X).",
                    "k(X,Y) :- q(X,Y), not h(X,Y).", "k(X,Y) :- r(X,Y), not h(X,Y).", "k(X,Y) :- q(X,Y), not not h(X,Y).", "k(X,Y) :- r(X,Y), not h(Y,X), p(X).",
                    "m(X,Y) :- q(X,Y), not h(X,Y). k(X,Y) :- m(X,Y).",
                ]
            )
        )
        names.append("chain")
    # users: (literal, variables it binds)
    user_atoms = [("h(A,B)", "AB"), ("h(A,B)", "AB"), ("h(B,A)", "AB"), ("h(A,A)", "A"), ("h(A,_)", "A"), ("k(A,B)", "AB"), ("k(B,A)", "AB")]
    extra = [
        ("q(A,B)", "AB"), ("q(B,A)", "AB"), ("q(A,_)", "A"), ("q(_,B)", "B"), ("q(A,A)", "A"), ("p(A)", "A"), ("p(B)", "B"), ("r(A,B)", "AB"), ("r(B,A)", "AB"),
        ("not p(A)", ""), ("not p(B)", ""), ("not r(A,B)", ""), ("not not p(A)", ""), ("not not q(A,B)", ""), ("not q(A,B)", ""), ("h(A,_)", "A"), ("h(_,B)", "B"),
        ("not h(A,B)", ""), ("not not h(A,B)", ""), ("#true", ""), ("#false", ""), ("not #false", ""), ("p(A) : #true", ""), ("p(A) : #false", ""),
        ("q(A,B) : p(A), q(A,B)", ""), ("not p(C) : q(A,C), p(A)", ""),
    ]
    wit_user = []
    if witness:
        w = witness.replace("X", "A").replace("Y", "B")
        wit_user = [(w, "".join(ch for ch in w if ch in "AB") if not w.startswith("not") else "")]
    for _ in range(t.i(1, 3)):
        chosen = [t.one(user_atoms)] + [t.one(extra) for _ in range(t.i(1, 3))]
        if wit_user and t.p(60):
            chosen.append(wit_user[0])
        bound = "".join(b for _, b in chosen)
        if "A" not in bound:
            chosen.append(("p(A)", "A"))
        if "B" not in bound:
            chosen.append(t.one([("p(B)", "B"), ("q(A,B)", "AB")]))
        order = [x for x, _ in chosen]
        if t.p(50):
            order = order[1:] + order[:1]
        k = t.i(0, 9)
        b = "; ".join(order)
        if k < 4:
            stms.append(f"u(A,B) :- {b}.")
        elif k < 6:
            stms.append(f":- {b}.")
        elif k < 7:
            stms.append(f":~ {b}. [1@{t.num(0, 1)},A,B]")
        elif k < 9:
            conds = ", ".join(x for x in order if ":" not in x and not x.startswith("#"))
            stms.append(f"c(A) :- p(A), #sum{{ B : {conds}; 1,x : #true; 2,y : #false, p(A) }} {t.op()} {t.num(0, 3)}.")
        else:
            conds = ", ".join(x for x in order if ":" not in x)
            stms.append(f"c(A) :- p(A), u2(B) : {conds}.")
    stms = t.context(["p", "q", "r"]) + stms
    return "\n".join(stms), "cleanup:" + "+".join(sorted(set(names)))


# ---------------------------------------------------------------- unused (C09)
def unused_program(draw: Callable) -> tuple[str, str]:
    """copy rules, unused positions, predicates only observed by particular statement kinds"""
    t = T(draw)
    stms: list[str] = []
    names = []
    # a derived predicate with possibly unused positions
    stms.append(t.one(["a(X,Y) :- q(X,Y).", "a(X,Y) :- q(X,Y), p(X).", "a(X,Y,Z) :- q(X,Y), r(Y,Z).", "{ a(X,Y) : q(X,Y) }.", "a(X,Y) ; na(X,Y) :- q(X,Y).", "a(X,Y) :- q(X,Y). a(X,Y) :- r(X,Y)."]))
    # copy rules / chains
    for _ in range(t.i(0, 3)):
        c = t.one(
            [
                "b(X,Y) :- a(X,Y).", "b(Y,X) :- a(X,Y).", "b(X,X) :- a(X,X).", "b(X,Y) :- a(X,Y). b(X,Y) :- r(X,Y).", "b(X,Y) :- a(Y,X).",
                "c(X,Y) :- b(X,Y).", "c(X,Y) :- b(Y,X).", "b(X,Y) :- a(X,Y,_).", "b(X,Y) :- a(X,_,Y).", "b(X,1) :- a(X,_).", "b(X,Y) :- a(X,Y), p(X).",
                "b(X,Y) :- not a(X,Y), q(X,Y).", "b(X) :- a(X,_).", "b(X) :- a(_,X).", "b(X,Y) :- a(X,X), p(Y).", "e(X) :- b(X,_), not c(X,X).",
            ]
        )
        stms.append(c)
        names.append("copy")
    if t.p(15):
        # zero-arity helpers, one of them defined by a single *negative* literal (no copy rule!)
        stms.append("someopen :- a(X,_).")
        stms.append(t.one(["closed :- not someopen.", "closed :- not not someopen.", "closed :- someopen."]))
        stms.append(t.one(["out(X) :- p(X), closed.", "quiet :- not closed.", ":~ closed. [3@1]", ":- closed, p(1)."]))
        names.append("zero_arity_copy")
    # observers of different kinds
    for _ in range(t.i(1, 4)):
        o = t.one(
            [
                ":- b(X,_), p(X).", ":- b(X,Y), X < Y.", "out(X) :- b(X,_).", "out(X) :- c(_,X).", "out(X) :- a(X,_).", "{ out(X) } :- b(X,Y).",
                "out(X) : b(X,_) :- p(X).", "out(X) ; out2(X) :- b(X,_).", "out(N) :- N = #count{ X : b(X,_) }.", "out(N) :- N = #sum{ Y,X : c(X,Y) }.",
                ":~ b(X,_). [1@1,X]", ":~ c(X,Y). [Y@0]", "#minimize{ 1,X : a(X,_) }.", "#show b/2.", "#show c/2.", "#show X : b(X,_).", "#show e/1.",
                "#show p(X) : e(X).", "#external b(X,Y) : q(X,Y).", "#project b/2.", "#project c(X,Y) : q(X,Y).", "#heuristic b(X,Y) : q(X,Y). [1,true]",
                "#edge (X,Y) : b(X,Y).", "1 { out(X) : b(X,_) } 1.", "#sum{ 1,X : out(X) : b(X,_) } <= 1.", "out(X) :- p(X), not b(X,_).", "out :- b(_,_).", "out :- not c(_,_).",
            ]
        )
        stms.append(o)
    stms = t.context(["p", "q", "r"]) + stms
    return "\n".join(stms), "unused:" + "+".join(sorted(set(names)) or ["plain"])


# ---------------------------------------------------------------- shared: defining a "data" predicate
def define(t: T, atom: str, cand: str, allow_input: bool = True) -> list[str]:
    """define `atom` (e.g. 'pl(P,X,Y)') from the candidate atom `cand` (an input predicate with the same variables):
    input (no rule) / choice / derived / derived through negation (non-static) / disjunction"""
    k = t.i(0, 9)
    if allow_input and k < 3:
        return []
    if k < 6:
        return [f"{{ {atom} : {cand} }}."]
    if k < 7:
        return [f"{atom} :- {cand}."]
    if k < 8:
        n = "n" + atom
        return [f"{atom} :- {cand}, not {n}.", f"{n} :- {cand}, not {atom}."]
    if k < 9:
        return [f"{atom} ; n{atom} :- {cand}."]
    return [f"{{ {atom} }} :- {cand}."]


# ---------------------------------------------------------------- symmetry (C11)
def symmetry_program(draw: Callable) -> tuple[str, str]:
    """k atoms of one predicate joined under pairwise != / < / > / not ="""
    t = T(draw)
    ar = t.one([2, 3, 3, 4])
    vars_ = ["P", "X", "Y", "V"][:ar]
    base = f"pl({','.join(vars_)})"
    stms = define(t, base, f"cand({','.join(vars_)})")
    names = ["sym"]
    k = t.one([2, 2, 2, 2, 3, 3, 4])
    loose = t.p(35)  # most programs keep the other positions equal (the shape the pass is written for)
    copies = []
    for i in range(1, k + 1):
        args = []
        for pos, v in enumerate(vars_):
            if pos == 0:
                args.append(f"{v}{i}")
            else:
                args.append(f"{v}{i}" if loose and t.p(35) else v)
        copies.append(args)
    lits = [f"pl({','.join(a)})" for a in copies]
    cmps = []
    uneq = t.one(["!=", "!=", "!=", "<", ">", "noteq"])
    for i in range(k):
        for j in range(i + 1, k):
            a, b = copies[i][0], copies[j][0]
            if t.p(8):
                continue  # drop one inequality: must then block (or weaken) the rewrite
            cmps.append(f"not {a} = {b}" if uneq == "noteq" else f"{a} {uneq} {b}")
    # second unequal / tied position
    for pos in range(1, ar):
        distinct = sorted({c[pos] for c in copies})
        if len(distinct) > 1:
            how = t.i(0, 9)
            if how < 4:
                cmps.append(f"{distinct[0]} != {distinct[1]}")
            elif how < 7:
                cmps.append(f"{distinct[0]} = {distinct[1]}")
            elif how < 8:
                cmps.append(f"not {distinct[0]} != {distinct[1]}")
    extra = []
    for _ in range(t.i(0, 2)):
        extra.append(t.one(["node(X)", f"q({copies[0][0]})", f"not q({copies[0][0]})", f"q({copies[-1][0]})", "node(X), X > 1", f"{copies[0][0]} != X", f"w({copies[0][0]},{copies[1][0]})"]))
    body = lits + cmps + extra
    if t.p(30):
        body = body[1:] + body[:1]
    b = ", ".join(body)
    shown_vars = ["X", copies[0][0], copies[1][0], "Y" if ar > 2 else "X"]
    head_var = t.one(shown_vars[: 2 + t.i(0, 2)])
    if head_var not in b:
        head_var = copies[0][0]
    kind = t.i(0, 11)
    if kind < 4:
        stms.append(f"f({head_var if t.p(40) else 'X' if 'X' in b.replace('X1','').replace('X2','').replace('X3','').replace('X4','') else head_var}) :- {b}.")
    elif kind < 6:
        stms.append(f":- {b}.")
    elif kind < 7:
        stms.append(f":~ {b}. [{t.one(['1', head_var])}@1{t.one(['', ',' + head_var])}]")
        names.append("objective")
    elif kind < 8:
        stms.append(f"{{ g({copies[0][0]},{copies[1][0]}) }} :- {b}.")
    elif kind < 10:
        w = "X" if "X" in copies[0] else copies[0][1] if ar > 1 else copies[0][0]
        outer = t.one(["", "", "", f"lead({copies[0][0]})", f"lead({copies[1][0]})", "node(X)" if "X" in copies[0] else "", f"not q({copies[0][0]})"])
        agg = f"#count{{ {w} : {', '.join(lits + cmps)} }} >= {t.one([1, 1, 2])}"
        parts = [agg, outer] if t.p(60) else [outer, agg]
        hd = t.one(["", "", "alarm", f"alarm({copies[0][0]})" if copies[0][0] in outer and "not" not in outer else "alarm"])
        stms.append(f"{hd} :- {', '.join(x for x in parts if x)}.")
        names.append("inaggregate" + ("+outer" if outer else ""))
    elif kind < 11:
        w = "X" if "X" in copies[0] else copies[0][1] if ar > 1 else copies[0][0]
        stms.append(f"f(N) :- N = #sum{{ 1,{w} : {', '.join(lits + cmps)} }}.")
        names.append("inaggregate")
    else:
        stms.append(f"f :- node(Z), pl2(Z) : {', '.join(lits + cmps)}.")
    if t.p(25):
        stms.append(t.one([":- f(X), node(X).", "#show f/1.", "node(1..2).", ":- 2 { f(X) }."]))
    return "\n".join(stms), "+".join(sorted(set(names))) + f":k{k}"


# ---------------------------------------------------------------- minmax_chains (C12)
def minmax_chains_program(draw: Callable) -> tuple[str, str]:
    """#min/#max assignments and bounds over choice-defined / derived / input predicates; results consumed by sums and objectives"""
    t = T(draw)
    names = []
    stms = define(t, "sk(P,I,V)", "csk(P,I,V)")
    if t.p(60):
        stms += define(t, "pers(P)", "cpers(P)")
    nrules = t.one([1, 1, 2])
    results = []
    lines = []
    for r in range(nrules):
        fn = t.one(["#min", "#max"])
        el = t.one(["V,I : sk(P,I,V)", "V : sk(P,_,V)", "V,I : sk(P,I,V), V > 0", "V : sk(P,I,V), pers(P)", "V+1,I : sk(P,I,V)", "V,I : sk(P,I,V), not bad(I)", "V : sk(_,_,V)"])
        if t.p(12):
            el += "; " + t.one(["0", "W,x : ot(P,W)", "V,I : sk2(P,I,V)"])
            names.append("multielem")
        agg = f"{fn}{{ {el} }}"
        grouped = "P" in el.split(":")[1] or "P" in el
        anchor = t.one(["pers(P)", "pers(P)", "sk(P,_,_)", ""]) if grouped else ""
        kind = t.i(0, 9)
        head = f"r{r}(P,X)" if grouped and anchor else f"r{r}(X)"
        if kind < 5:
            body = [f"X = {agg}"] + ([anchor] if anchor else [])
            if grouped and not anchor:
                head = f"r{r}(X)"
                body = [f"X = {fn}{{ {el.replace('(P,', '(_,')} }}"] if "pers(P)" not in el else [f"X = {agg}", "pers(P)"]
            lines.append(f"{head} :- {', '.join(body)}.")
            results.append((r, head, fn))
            names.append("assign")
        else:
            op = t.op()
            bound = t.one([t.num(0, 4), t.num(0, 4), "B"])
            neg = t.neg(30)
            side = t.p(50)
            lit = f"{neg}{bound} {op} {agg}" if side else f"{neg}{agg} {op} {bound}"
            if t.p(15):
                lit = f"{neg}{t.num(0, 2)} {t.one(['<', '<='])} {agg} {t.one(['<', '<=', '!='])} {t.num(2, 5)}"
            body = [lit] + ([anchor] if anchor else ["pers(P)"] if "P" in agg else []) + (["lim(B)"] if "B" in lit else [])
            h = t.one(["ok(P)" if "pers(P)" in body or "sk(P,_,_)" in body else "ok", ""])
            lines.append(f"{h} :- {', '.join(body)}.")
            names.append("bound")
    if len(lines) == 2 and t.p(35):
        stms.append(lines[0] + " " + lines[1])
        names.append("sameline")
    else:
        stms.extend(lines)
    for r, head, fn in results:
        if t.p(60):
            grouped = "P" in head
            v = head.replace("X", "W")
            sign = t.one(["", "", "-"])
            c = t.i(0, 6)
            tup = ",P" if grouped and t.p(75) else ""  # sometimes the group is left out of the tuple (values then collapse)
            if c == 0:
                stms.append(f"tot(S) :- S = #sum{{ {sign}W{tup} : {v} }}.")
            elif c == 1:
                stms.append(f"#minimize{{ {sign}W{tup} : {v} }}.")
            elif c == 2:
                stms.append(f"#maximize{{ {sign}W{tup} : {v} }}.")
            elif c == 3:
                stms.append(f":~ {v}. [{sign}W@1{tup}]")
            elif c == 4:
                stms.append(f"tot(S) :- S = #sum{{ W{tup} : {v}; 1,extra : pers(_) }}.")
            elif c == 5:
                stms.append(f":- {v}, W {t.op()} {t.num(0, 4)}.")
            else:
                stms.append(f"tot(S) :- S = #sum+{{ W{tup} : {v} }}.")
            names.append("consumed")
    return "\n".join(stms), "+".join(sorted(set(names)))


# ---------------------------------------------------------------- sum_chains (C13)
def sum_chains_program(draw: Callable) -> tuple[str, str]:
    """at-most-one choice predicates used as weights in #sum aggregates and objectives"""
    t = T(draw)
    names = []
    cond = t.one(["psh(D,L)", "psh(D,L)", "psh(_,L)", "psh(D,L), L > 0", "lv(L)"])
    el = f"sh(D,L) : {cond}"
    k = t.i(0, 13)
    body = t.one(["day(D)", "day(D)", "day(D), not off(D)"])
    if k == 0:
        c = f"{{ {el} }} 1 :- {body}."
    elif k == 1:
        c = f"{{ {el} }} <= 1 :- {body}."
    elif k == 2:
        c = f"1 >= {{ {el} }} :- {body}."
    elif k == 3:
        c = f"{{ {el} }} < 2 :- {body}."
    elif k == 4:
        c = f"{{ {el} }} = 1 :- {body}."
    elif k == 5:
        c = f"1 {{ {el} }} 1 :- {body}."
    elif k == 6:
        c = f"#count{{ L : {el} }} <= 1 :- {body}."
    elif k == 7:
        c = f"#sum{{ 1,L : {el} }} <= 1 :- {body}."
    elif k == 8:
        c = f"{{ {el} }} 2 :- {body}."  # not at most one: must block
        names.append("notamo")
    elif k == 9:
        c = f"{{ {el} }} :- {body}. :- day(D), 2 {{ sh(D,L) }}."
        names.append("constraint_amo")
    elif k == 10:
        c = f"#sum{{ L,L : {el} }} <= 1 :- {body}."
        names.append("weighted")
    elif k == 11:
        c = f"{{ {el}; sh(D,0) }} 1 :- {body}."
        names.append("twoelem")
    elif k == 12:
        c = f"{{ sh(D,L) : psh(D,L); other(D) }} 1 :- {body}."
        names.append("twoelem")
    else:
        c = f"{{ sh(D,L) }} 1 :- {body}, lv(L)."
        names.append("globalvar")
    stms = [c]
    if t.p(12):
        # three-place variant: an extra argument that consumers leave anonymous
        stms = [t.one([f"{{ sh3(D,L,K) : psh(D,L), kind(K) }} 1 :- {body}.", f"{{ sh3(D,L,foo) : psh(D,L) }} 1 :- {body}.", f"{{ sh3(D,L,foo) : psh(D,L) }} 1 :- {body}.", f"{{ sh3(D,L,D) : psh(D,L) }} 1 :- {body}."])]
        stms.append(t.one(["cost(X) :- X = #sum{ L,D : sh3(D,L,_) }.", ":~ sh3(D,L,_). [L@0,D]", "cost(X) :- X = #sum{ L,D,K : sh3(D,L,K) }.", "cost(D,X) :- X = #sum{ L : sh3(D,L,_) }, day(D).", "#minimize{ L,D : sh3(D,L,foo) }.", "cost(X) :- X = #sum{ L,D : sh3(D,L,foo) }."]))
        return "\n".join(stms), "sum:threeplace"
    if t.p(15):
        stms.append(t.one(["sh(D,L) :- fix(D,L).", "sh(D,1) :- day(D), force(D)."]))
        names.append("also_derived")
    for _ in range(t.i(1, 2)):
        sign = t.one(["", "", "", "-"])
        grp = t.one(["D", "D", "_"])
        k2 = t.i(0, 9)
        if k2 == 0 and t.p(30):
            stms.append(f"a(X) :- X = #sum{{ {sign}L,D : sh(D,L), {t.one(['L > 1', 'L != 2', 'cost(L,C)', 'not bad(L)', 'L < D'])} }}.")
            names.append("weight_used_twice")
        elif k2 == 0:
            stms.append(f"a(X) :- X = #sum{{ {sign}L,D : sh(D,L) }}.")
        elif k2 == 1:
            stms.append(f"a(D,X) :- X = #sum{{ {sign}L : sh(D,L) }}, day(D).")
        elif k2 == 2:
            stms.append(f"a(X) :- X = #sum{{ {sign}L,D : sh(D,L), day(D) }}.")
        elif k2 == 3:
            stms.append(f"a(X) :- X = #sum+{{ L,D : sh(D,L) }}.")
        elif k2 == 4:
            tup = f"{sign}L@{t.num(0, 1)}{',' + grp if grp != '_' else ''}"
            stms.append(f":~ sh({grp},L). [{tup}]")
            if grp == "D" and t.p(45):  # another objective with the very same tuple: must block the rewrite
                stms.append(t.one([f":~ psh(D,L), late(D). [{tup}]", f":~ bonus(D,L). [{tup}]", f":~ psh(D,L), not day(L). [{tup}]"]))
                names.append("colliding_objective")
        elif k2 == 5:
            stms.append(f"#minimize{{ {sign}L,D : sh(D,L) }}.")
            if t.p(45):
                stms.append(t.one([f"#minimize{{ {sign}L,D : psh(D,L), late(D) }}.", f"#minimize{{ {sign}L,D : bonus(D,L) }}.", f":~ psh(D,L), late(D). [{sign}L@0,D]"]))
                names.append("colliding_objective")
        elif k2 == 6:
            stms.append(f"#maximize{{ L@1,D : sh(D,L), day(D) }}.")
            if t.p(45):
                stms.append(t.one(["#maximize{ L@1,D : psh(D,L), late(D) }.", ":~ bonus(D,L). [-L@1,D]"]))
                names.append("colliding_objective")
        elif k2 == 7:
            stms.append(f"a(X) :- X = #sum{{ L : sh(_,L) }}.")
            names.append("anon_group")
        elif k2 == 8:
            stms.append(f"a(X) :- X = #sum{{ L,D : sh(D,L); L,D : bonus(D,L) }}.")
            names.append("sibling")
        else:
            stms.append(f":- day(D), #sum{{ L : sh(D,L) }} {t.op()} {t.num(0, 4)}.")
    if t.p(35):
        stms.append(t.one([":~ bonus(D,L). [L@0,D]", ":~ bonus(D,L). [L@1,D]", "#minimize{ L,D : bonus(D,L) }.", ":~ bonus(D,L). [-L@0,D]", "#maximize{ L@1,D : bonus(D,L) }."]))
        names.append("other_objective")
    if t.p(20):
        stms.append(t.one(["psh(D,L) :- day(D), lv(L).", "day(1..2).", "lv(0..2)."]))
    return "\n".join(stms), "sum:" + "+".join(sorted(set(names)) or ["plain"])


# ---------------------------------------------------------------- math (C14)
def math_program(draw: Callable) -> tuple[str, str]:
    """comparisons between integer terms and aggregate assignments combined arithmetically"""
    t = T(draw)
    names = []
    stms = []
    if t.p(20):
        stms.append(f"#const n = {t.i(0, 3)}.")
        names.append("const")
    cterm = lambda: t.one([t.num(0, 4), t.num(0, 4), "n"] if names and "const" in names else [t.num(0, 4)])

    def lin(vs: list[str]) -> str:
        k = t.i(0, 9)
        v = t.one(vs)
        if k < 3:
            return v
        if k < 5:
            return f"{v}{t.one(['+', '-'])}{cterm()}"
        if k < 6:
            return f"{t.i(2, 3)}*{v}"
        if k < 7:
            return f"{v}+{t.one(vs)}"
        if k < 8:
            return f"{v}*{t.one(vs)}"
        if k < 9:
            return t.one([f"{v}/{t.i(2, 3)}", f"{v}\\{t.i(2, 3)}", f"|{v}|", f"{v}*{v}"])
        return cterm()

    for _ in range(t.i(1, 2)):
        shape = t.i(0, 10)
        if shape == 10:
            # a (negated) comparison against a variable that math can eliminate: ties decide
            op = t.op()
            lit = f"{t.one(['not ', 'not ', 'not not ', ''])}X {op} Z" if t.p(60) else f"{t.one(['not ', ''])}Z {op} X"
            stms.append(f"ok(X) :- p(X), q(Y,_), Z = Y{t.one(['+1', '-1', '+0', '*2'])}, {lit}.")
            names.append("negated_vs_eliminated")
            continue
        if shape < 4:
            vs = ["X", "Y"]
            body = ["q(X,Y)"]
            if t.p(40):
                body.append("p(Z)")
                vs.append("Z")
            used_head = t.one(["X", "X,Y", "Z" if "Z" in vs else "Y", ""])
            for _ in range(t.i(1, 3)):
                k = t.i(0, 9)
                if k < 6:
                    body.append(f"{t.neg(12)}{lin(vs)} {t.op()} {lin(vs)}")
                elif k < 8:
                    nv = t.one(["A", "B"])
                    if nv not in vs:
                        body.append(f"{nv} = {lin(vs)}")
                        vs.append(nv)
                else:
                    body.append(f"{lin(vs)} {t.one(['<', '<='])} {lin(vs)} {t.one(['<', '<=', '!='])} {lin(vs)}")
            head = f"a({used_head})" if used_head else "a"
            stms.append(f"{head} :- {', '.join(body)}.")
            names.append("comparisons")
        else:
            aggs = []
            vs = []
            body = []
            grp = t.p(50)
            if grp:
                body.append("p(G)")
            for name in ["X", "Y", "Z"][: t.i(1, 3)]:
                fn = t.one(["#sum", "#sum", "#count", "#sum+", "#min", "#max"])
                el = t.one([f"V,I : sk({'G' if grp else 'P'},I,V)", "1,I : it(I)", "W : ot(P,W)" if not grp else "W : ot(G,W)", f"V : sk({'G' if grp else '_'},_,V)", "-V,I : sk(P,I,V)" if not grp else "-V,I : sk(G,I,V)", "2*W,W : ot(_,W)"])
                if t.p(25):
                    el += "; " + t.one(["1,c : it(_)", "W,o : ot(_,W)", "3"])
                body.append(f"{name} = {fn}{{ {el} }}")
                vs.append(name)
            rel = t.i(0, 12)
            bound_by_lim = False
            if rel >= 10:
                expr = "+".join(vs) if t.p(70) else "-".join(vs)
                if t.p(50):
                    body.insert(0, "lim(L)")
                    body.append(f"{expr} {t.op()} L" if t.p(60) else f"L {t.op()} {expr}")
                else:
                    body.append(f"T = {expr}")
                    bound_by_lim = True
            elif rel < 5:
                expr = "+".join(vs) if t.p(60) else "-".join(vs)
                body.append(f"{expr} {t.op()} {cterm()}")
            elif rel < 7 and len(vs) > 1:
                body.append(f"{vs[0]} {t.op()} {vs[1]}")
            elif rel < 8:
                body.append(f"{t.i(2, 3)}*{vs[0]} {t.op()} {lin(vs)}")
            elif rel < 9:
                body.append(f"{vs[0]}*{vs[-1]} {t.op()} {cterm()}")
            hv = t.one(["", "", vs[0], ",".join(vs)])
            if bound_by_lim:
                hv = "T"
            if grp and t.p(50):
                hv = "G" + ("," + hv if hv else "")
            kindh = t.i(0, 9)
            if kindh < 7:
                stms.append(f"{'b(' + hv + ')' if hv else 'b'} :- {', '.join(body)}.")
            elif kindh < 8:
                stms.append(f":- {', '.join(body)}.")
            else:
                stms.append(f":~ {'; '.join(body)}. [{vs[0]}@1{',G' if grp else ''}]")
            names.append("aggregates")
        if t.p(15):
            agg = t.one(["#sum{ V,I : sk(P,I,V) }", "#count{ I : it(I) }", "#sum+{ W : ot(_,W) }"])
            lit = t.one([f"not {t.num(0, 3)} {t.op()} {agg}", f"not not {agg} {t.op()} {t.num(0, 3)}", f"{t.num(0, 1)} <= {agg} <= {t.num(2, 4)}", f"not {t.num(0, 1)} < {agg} < {t.num(2, 5)}"])
            stms.append(f"c :- {lit}.")
            names.append("signed_or_twosided")
    stms += define(t, "sk(P,I,V)", "csk(P,I,V)")
    if t.p(40):
        stms += define(t, "it(I)", "cit(I)")
    return "\n".join(stms), "math:" + "+".join(sorted(set(names)))


# ---------------------------------------------------------------- inline (C15)
def inline_program(draw: Callable) -> tuple[str, str]:
    """helper(V..,S) :- body, S = #agg{..} used once"""
    t = T(draw)
    names = []
    fn = t.one(["#sum", "#sum", "#sum+", "#count", "#min", "#max"])
    el = t.one(["Y : pr(A,Y)", "Y,Z : pr(A,Y), ex(Y,Z)", "Y : pr(A,Y), Y > 0", "1,Y : pr(A,Y)", "Y : pr(_,Y)", "Y,A : pr(A,Y)"])
    extra = t.one(["", "", ", A > 0", ", not bl(A)", ", g(A,_)"])
    hargs = t.one(["A,S", "A,S", "S,A", "A,A,S", "A,1,S", "S"])
    if hargs == "S":
        hdef = f"hl(S) :- S = {fn}{{ {el.replace('(A,', '(_,').replace(',A :', ' :')} }}."
    else:
        hdef = f"hl({hargs}) :- a(A){extra}, S = {fn}{{ {el} }}."
    stms = [hdef]
    if t.p(10):
        stms.append("hl(A,S) :- fixed(A,S)." if hargs == "A,S" else hdef)
        names.append("two_definitions")
    use_args = {"A,S": "V,F", "S,A": "F,V", "A,A,S": "V,V,F", "A,1,S": "V,1,F", "S": "F"}[hargs]
    ufn = t.one([fn, fn, "#sum", "#max", "#count"])
    k = t.i(0, 11)
    grouped = hargs != "S"
    tup = "F,V" if grouped else "F"
    if k < 4 and grouped and t.p(25):
        stms.append(f"foo(X) :- X = {ufn}{{ F,V,{t.one(['a', 'V', '1', '1'])} : hl({use_args}); B,M,K : bonus(M,K,B) }}.")
        names.append("into_aggregate_long_tuple")
    elif k < 4:
        sib = t.one(["", "", "; B : tst(B,C)", "; B,C : tst(B,C)", "; F,V : oth(V,F)", "; 1"])
        stms.append(f"foo(X) :- X = {ufn}{{ {tup} : hl({use_args}){sib} }}.")
        names.append("into_aggregate")
    elif k < 5:
        stms.append(f"foo(X) :- X = {ufn}{{ {tup} : hl({use_args}), sel(V) }}." if grouped else f"foo(X) :- X = {ufn}{{ F : hl(F), sel(_) }}.")
        names.append("into_aggregate")
    elif k < 7:
        stms.append(f":~ hl({use_args}). [F@{t.num(0, 1)}{',V' if grouped else ''}]")
        names.append("into_objective")
    elif k < 8:
        stms.append(f"#minimize{{ F{',V' if grouped else ''} : hl({use_args}) }}.")
        names.append("into_objective")
    elif k < 9:
        stms.append(f"foo :- hl({use_args}), F {t.op()} {t.num(0, 3)}.")
        names.append("into_body")
    elif k < 10:
        stms.append(f"foo :- hl({use_args}), N = #count{{ B : tst(B,_) }}, F + N {t.op()} {t.num(0, 4)}.")
        names.append("into_body_arith")
    elif k < 11:
        stms.append(f"foo :- not hl({use_args.replace('V', '_').replace('F', '2')}).")
        names.append("negative_use")
    elif t.p(50):
        stms.append(f"foo(X) :- X = #sum{{ {tup} : hl({use_args}) }}. bar(X) :- X = #max{{ F : hl({use_args}) }}.")
        names.append("two_uses")
    else:
        u2 = use_args.replace("V", "V2").replace("F", "F2")
        stms.append(
            t.one(
                [
                    f"foo(X) :- X = #sum{{ {tup} : hl({use_args}), sel(V); {tup},x : hl({use_args}), not sel(V) }}." if grouped else f"foo(X) :- X = #sum{{ F : hl(F), sel(_); F,x : hl(F) }}.",
                    f"foo(X) :- hl({u2}), F2 > 0, X = #sum{{ {tup} : hl({use_args}) }}.",
                    f":~ hl({use_args}), hl({u2}), N = #count{{ B : tst(B,_) }}. [F+F2+N@1{',V,V2' if grouped else ''}]",
                ]
            )
        )
        names.append("two_uses_one_statement")
    if t.p(25):
        stms.append(t.one([":~ tst(B,C). [C@0,B]", ":~ oth(V,F). [F@0,V]", "#minimize{ 1,V : a(V) }."]))
        names.append("other_objective")
    stms += define(t, "pr(A,Y)", "cpr(A,Y)")
    if t.p(40):
        stms += define(t, "a(A)", "ca(A)")
    return "\n".join(stms), "inline:" + "+".join(sorted(set(names)))


# ---------------------------------------------------------------- projection (C16)
def projection_program(draw: Callable) -> tuple[str, str]:
    """long bodies with variables local to a part"""
    t = T(draw)
    pool_pos = ["q(A,B)", "q(A,B,C)", "r(A,D)", "r(B,E)", "p(E)", "p(F)", "e(D,F)", "q(C,D)", "e(A,A)", "p(A)", "r(E,F)", "q(_,B)", "r(A,_)"]
    # (literal, global variables it needs bound)
    pool_dep = [
        ("not s(B,E)", "BE"), ("not p(C)", "C"), ("B < E", "BE"), ("C != D", "CD"), ("E = F", "EF"), ("not not r(A,B)", "AB"), ("D > 1", "D"), ("B + 1 = C", "BC"),
        ("#sum{ G : e(E,G) } > 1", "E"), ("#count{ G : q(G,B) } {op} 1", "B"), ("s(B,G) : e(E,G)", "BE"), ("not e(F,G) : p(G)", "F"), ("#min{ G : r(G,F) } {op} 2", "F"),
        ("not s(A,_)", "A"), ("A != F", "AF"), ("not q(B,E)", "BE"),
    ]
    names = []
    stms = []
    for _ in range(t.i(1, 2)):
        lits = [t.one(pool_pos) for _ in range(t.i(2, 4))]
        bound = {c for lit in lits for c in lit if c.isupper()}
        for _ in range(t.i(1, 3)):
            cands = [d for d, need in pool_dep if set(need) <= bound]
            if cands:
                lits.append(t.one(cands).replace("{op}", t.op()))
        if t.p(20) and "D" in bound:
            lits.append("K = #sum{ G : e(D,G) }")
            bound.add("K")
        if t.p(40):
            lits = lits[1:] + lits[:1]
        hv = [v for v in ["A", "D", "F", "B", "K"] if v in bound and t.p(50)][:2]
        kind = t.i(0, 9)
        b = "; ".join(lits)
        if kind < 5:
            stms.append(f"h({','.join(hv)}) :- {b}." if hv else f"h :- {b}.")
        elif kind < 6:
            stms.append(f":- {b}.")
        elif kind < 7:
            stms.append(f"{{ h({','.join(hv)}) }} :- {b}." if hv else f"{{ h }} :- {b}.")
            names.append("choice")
        elif kind < 8:
            stms.append(f"h({','.join(hv)}) ; g :- {b}." if hv else f"h ; g :- {b}.")
            names.append("disjunction")
        elif kind < 9:
            stms.append(f"p({hv[0]}) :- {b}." if hv and hv[0] != "K" else f"h :- {b}.")
            names.append("recursive")
        else:
            stms.append(f":~ {b}. [1@1{',' + hv[0] if hv else ''}]")
            names.append("objective")
    if t.p(30):
        stms += define(t, "q(A,B)", "cq(A,B)", allow_input=False)
    return "\n".join(stms), "projection:" + "+".join(sorted(set(names)) or ["plain"])


# ---------------------------------------------------------------- duplication (C10)
def duplication_program(draw: Callable) -> tuple[str, str]:
    """statements sharing a literal subset up to variable renaming"""
    t = T(draw)
    names = []
    core_pool = ["q(X,Y)", "r(Y,Z)", "p(X)", "not s(X)", "X < Y", "Y != Z", "not r(X,X)", "u", "q(X,_)", "e(Z) : r(Y,Z)", "not not p(Y)", "X = Y+1", "q(Y,X)", "r(X,Z)"]
    core = []
    for _ in range(t.i(2, 3)):
        c = t.one(core_pool)
        if c not in core:
            core.append(c)
    if not any(c[0] in "qrp" and "(" in c for c in core):
        core.insert(0, "q(X,Y)")
    if any("Z" in c for c in core) and not any(c.startswith("r(") for c in core):
        core.append("r(Y,Z)")
    if any("Y" in c for c in core) and not any(c.startswith("q(") or c.startswith("r(Y") for c in core):
        core.append("q(X,Y)")
    if not any(c.startswith(("q(X", "p(X", "r(X")) for c in core):
        core.append("p(X)")
    renamings = [{"X": "X", "Y": "Y", "Z": "Z"}, {"X": "A", "Y": "B", "Z": "C"}, {"X": "Y", "Y": "X", "Z": "W"}, {"X": "M", "Y": "N", "Z": "O"}]

    def inst(lits: list[str], ren: dict) -> list[str]:
        out = []
        for lit in lits:
            out.append("".join(ren.get(ch, ch) for ch in lit))
        return out

    stms = []
    if t.p(15):
        # wide atoms: the canonical renaming has to cope with more than ten variables
        wide = ["leg(A,B,C,D,E,F)", "book(F,G,H,I,J,K)"] + ([t.one(["A < K", "B != J", "not bad(C)", "hub(F)"])] if t.p(50) else [])
        hv = [t.one(["A,K", "A,J", "B,K", "C,H", "A,G,K"]) for _ in range(2)]
        stms.append(f"cheap({hv[0]}) :- {', '.join(wide)}, low(A).")
        stms.append(f"prem({hv[1]}) :- {', '.join(wide if t.p(60) else list(reversed(wide)))}, {t.one(['high(A)', 'not low(K)', 'high(K)'])}.")
        if t.p(40):
            stms.append(f":~ {', '.join(wide)}. [{t.one(['A', 'K', 'J'])}@1,A,K]")
        return "\n".join(stms), "dup:wide"
    n = t.i(2, 3)
    for i in range(n):
        ren = renamings[i if t.p(70) else 0]
        mycore = list(core)
        if t.p(35):  # partial overlap: one literal of the shared set differs in this statement
            swaps = {"q(X,Y)": ["r(X,Y)", "e2(X,Y)"], "p(X)": ["v(X)", "d1(X)"], "r(Y,Z)": ["q(Y,Z)", "e2(Y,Z)"], "q(Y,X)": ["r(Y,X)"], "r(X,Z)": ["q(X,Z)"], "not s(X)": ["not v(X)"], "q(X,_)": ["r(X,_)"]}
            cands = [c for c in mycore if c in swaps]
            if cands:
                victim = t.one(cands)
                mycore[mycore.index(victim)] = t.one(swaps[victim])
        lits = inst(mycore, ren)
        x, y = ren["X"], ren["Y"]
        extra = t.one([[], [f"v({x})"], [f"not v({y})"], [f"{x} > 0"], ["w"], [f"t({x},T)"], [f"t({x},T)", f"E = {x}", f"E = T"], [f"t(T,U)", f"{x} = T", f"U = {x}"], [f"E = {y}", f"v(E)"]])
        body = lits + extra
        if t.p(30):
            body = body[1:] + body[:1]
        place = t.i(0, 9)
        has_cond = any(" : " in b for b in body)
        sep = "; " if has_cond else ", "
        if place < 4:
            hv = t.one([x, y, f"{x},{y}", ""])
            stms.append(f"h{i}({hv}) :- {sep.join(body)}." if hv else f"h{i} :- {sep.join(body)}.")
        elif place < 5:
            stms.append(f":- {sep.join(body)}.")
        elif place < 7 and not has_cond:
            stms.append(f"g{i}(S) :- S = #sum{{ {x},{y} : {', '.join(body)} }}.")
            names.append("aggregate")
        elif place < 8 and not has_cond:
            stms.append(f"g{i} :- w, k({x}) : {', '.join(body)}.")
            names.append("conditional")
        elif place < 9:
            stms.append(f":~ {sep.join(body)}. [{x}@1,{y}]")
            names.append("objective")
        else:
            stms.append(f"{{ c{i}({x}) }} :- {sep.join(body)}.")
    if t.p(25):
        stms.append(t.one(["q(X,Y) :- r(X,Y), p(X).", "p(X) :- q(X,Y), not s(X).", "{ s(X) } :- p(X)."]))
        names.append("recursive_or_choice")
    return "\n".join(stms), "dup:" + "+".join(sorted(set(names)) or ["bodies"])


# ---------------------------------------------------------------- dependency / domains (C20)
def dependency_program(draw: Callable) -> tuple[str, str]:
    """predicates defined through choices, several rules, aggregates with static and choice-dependent elements,
    negation, conditions and intervals - everything DomainPredicates has to abstract"""
    t = T(draw)
    names = []
    stms = [t.one(["{ pk(G,V) : cand(G,V) }.", "{ pk(G,V) } :- cand(G,V).", "1 { pk(G,V) : cand(G,V) } 1 :- grp(G).", "pk(G,V) ; npk(G,V) :- cand(G,V)."])]
    for _ in range(t.i(1, 3)):
        k = t.i(0, 13)
        if k == 0:
            stms.append("tot(G,S) :- grp(G), S = #sum{ W,b : base(G,W); V,p : pk(G,V) }.")
            names.append("sum_static_first")
        elif k == 1:
            stms.append("tot(G,S) :- grp(G), S = #sum{ V,p : pk(G,V); W,b : base(G,W) }.")
            names.append("sum_choice_first")
        elif k == 2:
            stms.append("tot(G,S) :- grp(G), S = #count{ W : base(G,W); V : pk(G,V), V > 1 }.")
            names.append("count_mixed")
        elif k == 3:
            stms.append("der(G,V) :- pk(G,V), not blocked(V).")
            names.append("negation_static")
        elif k == 4:
            stms.append("der(G,V) :- cand(G,V), not pk(G,V).")
            names.append("negation_choice")
        elif k == 5:
            stms.append("der(G,V) :- pk(G,V). der(G,V+1) :- pk(G,V), V < 3.")
            names.append("two_rules")
        elif k == 6:
            stms.append("der(G,V) :- grp(G), V = 1..3, pk(G,_).")
            names.append("interval")
        elif k == 7:
            stms.append("der(G,V) :- cand(G,V), ok(W) : pk(G,W).")
            names.append("condition_choice")
        elif k == 8:
            stms.append("der(G,V) :- pk(G,V), cand(G,W) : base(G,W).")
            names.append("condition_static")
        elif k == 9:
            stms.append("reach(G,V) :- pk(G,V). reach(G,W) :- reach(G,V), step(V,W).")
            names.append("recursion")
        elif k == 10:
            stms.append("hi(G,M) :- grp(G), M = #max{ S : tot(G,S) }." if any("tot(" in x for x in stms) else "hi(G,M) :- grp(G), M = #max{ V : pk(G,V) }.")
            names.append("minmax_user")
        elif k == 11:
            stms.append("der(G,V) :- pk(G,V), #sum{ W : base(G,W) } > 1.")
            names.append("static_aggregate")
        elif k == 12:
            stms.append("2 <= #sum{ V,G : lim(G,V) : pk(G,V) }.")
            names.append("headaggregate")
        else:
            stms.append("der(f(G),V*2) :- pk(G,V).")
            names.append("function_arith")
    if t.p(18):
        # the same name with another arity: generated names must keep p/2 and p/3 apart
        stms.append(t.one(["{ pk(G,V,W) : cand3(G,V,W) }.", "{ pk(G,V,W) } :- cand3(G,V,W).", "pk(G,V,W) ; npk3(G,V,W) :- cand3(G,V,W)."]))
        stms.append(t.one(["top3(G,M) :- grp(G), M = #max{ W : pk(G,_,W) }.", "top3(M) :- M = #min{ V,G : pk(G,V,_) }.", ":- pk(G,V,W), pk(G,V2,W), V != V2."]))
        stms.append("top2(G,M) :- grp(G), M = #max{ V : pk(G,V) }.")
        names.append("same_name_other_arity")
    # consumers that make the chain traits ask for domains
    stms.append(
        t.one(
            [
                "top(G,M) :- grp(G), M = #max{ V : der(G,V) }.", "top(M) :- M = #min{ V,G : der(G,V) }.", ":- der(G,V), der(G,W), V != W, grp(G).", "top(G,M) :- grp(G), M = #max{ S : tot(G,S) }.",
                ":- 2 <= #count{ G : der(G,V), der(G2,V), G != G2 }.", "#minimize{ M,G : top(G,M) }.", "top(G,M) :- grp(G), M = #max{ V : pk(G,V) }.", "",
            ]
        )
    )
    return "\n".join(x for x in stms if x), "dep:" + "+".join(sorted(set(names)))
