"""Pass-shaped templates (DESIGN.md 3.2): shapes written from each pass's trigger conditions,
with the degrees of freedom the property texts list left as Hypothesis draws, embedded in a
small random context.  clingo stays the judge of validity.

Vocabulary of the templates: p/1 q/2 r/2 (integer data, usually inputs), d/1 (domain fact range),
s/1 sel/2 (choice-defined), derived predicates named by the shapes.
"""

from typing import Callable

from hypothesis import strategies as st

OPS = ["=", "!=", "<", "<=", ">", ">="]


class T:
    """drawing helper"""

    def __init__(self, draw: Callable):
        self.draw = draw

    def i(self, lo: int, hi: int) -> int:
        """integer"""
        return self.draw(st.integers(lo, hi))

    def p(self, percent: int) -> bool:
        """biased coin"""
        return self.draw(st.integers(0, 99)) < percent

    def one(self, seq: list):
        """element"""
        return self.draw(st.sampled_from(seq))

    def op(self) -> str:
        """comparison operator"""
        return self.one(OPS)

    def num(self, lo: int = -1, hi: int = 3) -> str:
        """small integer"""
        return str(self.i(lo, hi))

    def neg(self, percent: int = 25) -> str:
        """optional default negation prefix"""
        if self.p(percent):
            return self.one(["not ", "not ", "not not "])
        return ""

    # ---- context: how the data predicates are defined
    def context(self, preds: list[str]) -> list[str]:
        """defining statements for some of p/1 q/2 r/2 d/1 (the others stay inputs)"""
        out = []
        for name in preds:
            k = self.i(0, 9)
            if k < 5:
                continue  # input
            if name in ("p", "d"):
                lo = self.i(-1, 2)
                if k < 7:
                    out.append(f"{name}({lo}..{lo + self.i(0, 3)}).")
                elif k < 8:
                    out.append(f"{name}({self.num()}). {name}({self.num(2, 6)}).")
                elif k < 9:
                    out.append(f"{{ {name}(X) : d0(X) }}. d0(0..2).")
                else:
                    out.append(f"{name}(X) :- d0(X), not n{name}(X). n{name}(X) :- d0(X), not {name}(X). d0(1..2).")
            else:
                lo = self.i(0, 1)
                if k < 7:
                    out.append(f"{name}({lo}..{lo + 1},{self.num()}..{self.num(2, 4)}).")
                elif k < 8:
                    out.append(f"{name}(1,{self.num()}). {name}(2,{self.num()}). {name}(1,{self.num(2, 5)}).")
                elif k < 9:
                    out.append(f"{{ {name}(X,Y) : e0(X,Y) }}. e0(1..2,0..2).")
                else:
                    out.append(f"{name}(X,Y) :- e0(X,Y), not n{name}(X,Y). n{name}(X,Y) :- e0(X,Y), not {name}(X,Y). e0(1,1..2).")
        return out


# ---------------------------------------------------------------- normalisation (C05)
def _n_oldagg(t: T) -> str:
    elems = []
    for _ in range(t.i(1, 3)):
        k = t.i(0, 7)
        if k == 0:
            elems.append(f"{t.neg(40)}q(X,Y) : r(X,Y)")
        elif k == 1:
            elems.append(f"{t.neg(50)}q(X,_)")
        elif k == 2:
            elems.append(f"r(_,X) : p(X)")
        elif k == 3:
            elems.append(f"not q(_,X)")
        elif k == 4:
            elems.append(f"q(X,Y) : r(Y,_), Y {t.op()} {t.num()}")
        elif k == 5:
            elems.append(f"q(X,{t.num()}..{t.num(2, 4)})")
        elif k == 6:
            elems.append(f"X {t.op()} {t.num()}")
        else:
            elems.append(t.one(["#true", "#false", "p(X+1)", "not p(X-1)"]))
    lg = t.one(["", "", f"{t.num(0, 2)} ", f"{t.num(0, 2)} {t.one(['<=', '<', '=', '!='])} "])
    rg = t.one(["", "", f" {t.num(0, 3)}", f" {t.one(['<=', '<', '=', '!=', '>'])} {t.num(0, 3)}"])
    return f"h(X) :- p(X), {t.neg(30)}{lg}{{ {'; '.join(elems)} }}{rg}."


def _n_count(t: T) -> str:
    fn = t.one(["#count", "#count", "#sum", "#sum+", "#min", "#max"])
    elems = []
    for _ in range(t.i(1, 2)):
        elems.append(t.one([f"Y : q(X,Y)", f"Y,Z : q(X,Y), r(Y,Z)", f"{t.num()},Y : q(Y,X), {t.neg(100)}p(Y)", "Y : q(X,Y), Y = 1..3", "X : p(X)", f"Y+{t.num()} : r(X,Y)"]))
    body = f"{fn}{{ {'; '.join(elems)} }}"
    k = t.i(0, 7)
    if k == 0:
        lit = f"#inf <= {body} <= #sup"
    elif k == 1:
        lit = f"#inf <= {body} {t.one(['<=', '<', '!='])} {t.num(0, 4)}"
    elif k == 2:
        lit = f"{t.num(0, 2)} <= {body} <= #sup"
    elif k == 3:
        lit = f"#sup >= {body} >= #inf"
    elif k == 4:
        lit = f"{body} {t.op()} {t.num(0, 3)}"
    elif k == 5:
        lit = f"{t.num(0, 2)} {t.one(['<=', '<', '!='])} {body} {t.one(['<=', '<', '!='])} {t.num(1, 4)}"
    elif k == 6:
        lit = f"{body} >= #inf"
    else:
        lit = f"N = {body}, N {t.op()} {t.num(0, 3)}"
    return f"h(X) :- p(X), {t.neg(30) if 'N =' not in lit else ''}{lit}."


def _n_chain(t: T) -> str:
    chain = f"{t.num()} {t.one(['<', '<=', '!='])} X {t.one(['<', '<=', '!=', '='])} Y {t.one(['<', '<=', '!='])} {t.num(1, 5)}"
    k = t.i(0, 3)
    if k == 0:
        return f"h(X,Y) :- p(X), p(Y), {t.neg(30)}{chain}."
    if k == 1:
        return f"h(X) :- p(X), #sum{{ Y : q(X,Y), {chain} }} {t.op()} {t.num(0, 3)}."
    if k == 2:
        return f"h(X) :- p(X), r(X,Y) : q(X,Y), {chain}."
    return f"{{ h(X,Y) : q(X,Y), {chain} }} :- p(X)."


def _n_pool(t: T) -> str:
    return t.one(
        [
            "h(X;Y) :- q(X,Y).",
            "h(X) :- p(X;X+1).",
            f"h(X) :- q(X,({t.num()};{t.num()})).",
            f"h(X) :- p(X), not p({t.num()};{t.num()}).",
            f"h(X) :- p(X), #sum{{ Y : q(X,Y;Y,X) }} {t.op()} {t.num(0, 3)}.",
            "h((X;Y),1) :- q(X,Y), X < Y.",
            f"{{ h(X;X+1) }} :- p(X).",
            f"h(X) :- p(X), r(X;{t.num()},_).",
            f":~ q(X,Y;Y,X). [X@{t.num(0, 1)},Y]",
        ]
    )


def _n_arith(t: T) -> str:
    return t.one(
        [
            f"h(X+{t.num()}) :- p(X).",
            f"h(X*{t.num()},Y) :- q(X,Y).",
            f"h(X) :- p(X), q(X+{t.num()},Y-1).",
            f"h(X) :- p(X), {t.neg(100)}q(X-1,X+{t.num()}).",
            f"h(X) :- p(X), r(X,Y+1) : q(X,Y).",
            f"{{ h(X,Y+1) : q(X,Y) }} :- p(X).",
            f"h(X) :- p(X), #sum{{ Y : q(X+1,Y) }} {t.op()} {t.num(0, 3)}.",
            f"h(X,Y) :- p(X), Y = X*{t.num()}+{t.num()}.",
            f"h(Y) :- p(X), Y = X+{t.num()}, {t.neg(60)}q(Y,X).",
            f"h(Y) :- p(X), X = Y+{t.num()}.",
            f"h(Y) :- p(X), q(Y,Z), Y = X, Z {t.op()} X.",
            f"h(X) :- p(X), X = X+{t.num(0, 1)}.",
            f"h(X) :- p(X), X = f(X).",
            f"h(X) :- p(X), X = X*{t.num(0, 3)}.",
            f"h(X) :- p(X), not X != X*{t.num(1, 2)}.",
            f"h(X) :- p(X), p(Y), #sum{{ Z : q(X,Z), X = Y }} {t.op()} {t.num(0, 3)}.",
            f"h(X) :- p(X), #sum{{ Z : q(X,Y), Z = Y*{t.num()} }} {t.op()} {t.num(0, 3)}.",
            f"h(X) :- p(X), #sum{{ Z : q(X,Y), Y = Z+{t.num()} }} {t.op()} {t.num(0, 3)}.",
            f"h(X) :- p(X), r(X,Z) : q(X,Y), Z = Y+{t.num()}.",
            f"h(X) :- p(X), Y = {t.num()}..{t.num(2, 4)}, q(X,Y).",
            f"h(X,Y) :- p(X), Y = (X;X+1).",
            f":~ q(X,Y). [X+Y@{t.one(['0', '1', 'X', 'X-1'])},f(X*2)]",
            f":~ p(X), Y = X*2. [Y@1,Y]",
            f"#minimize{{ X*Y@1,X : q(X,Y) }}.",
            f"#maximize{{ X-{t.num()},X : p(X) ; Y,a : q(_,Y) }}.",
            f"h(|X|) :- p(X).",
            f"h(X/2,X\\2) :- p(X).",
            f"h(-X) :- p(X).",
            f"h(X) :- p(X), Y = -X, q(Y,_).",
        ]
    )


def _n_headagg(t: T) -> str:
    return t.one(
        [
            f"{t.num(0, 1)} {{ h(X,Y) : q(X,Y) }} {t.num(1, 2)} :- p(X).",
            f"{t.num(0, 1)} <= #count{{ Y : h(X,Y) : q(X,Y) }} <= {t.num(1, 2)} :- p(X).",
            f"#sum{{ Y,X : h(X,Y) : q(X,Y) }} {t.one(['<=', '<', '=', '>='])} {t.num(0, 3)} :- p(X).",
            f"{t.num(0, 2)} #sum{{ Y : h(X,Y) : q(X,Y); 1 : g(X) }} :- p(X).",
            f"h(X) ; g(X) :- p(X), {t.neg(100)}r(X,_).",
            f"h(X) : q(X,Y) ; g(X) :- p(X).",
            f"#min{{ Y : h(Y) : q(X,Y) }} {t.op()} {t.num(0, 2)} :- p(X).",
        ]
    )


NORMALIZE_SHAPES = {
    "oldagg": _n_oldagg,
    "count_infsup": _n_count,
    "chain": _n_chain,
    "pool": _n_pool,
    "arith": _n_arith,
    "headagg": _n_headagg,
}


def normalize_program(draw: Callable) -> tuple[str, str]:
    """(program, shape names) for the normalisation steps"""
    t = T(draw)
    names = [t.one(sorted(NORMALIZE_SHAPES)) for _ in range(t.i(1, 3))]
    stms = [NORMALIZE_SHAPES[n](t) for n in names]
    if t.p(50):
        stms.append(t.one([":- h(X), p(X+1).", "g(X) :- h(X), not p(X).", ":~ h(X). [X@1]", ":~ h(X,Y). [Y,X]", "{ g(X) } :- h(X).", "g(X) :- h(X,_)."]))
    stms = t.context(["p", "q", "r"]) + stms
    if t.p(20):
        stms.append(t.one(["#show h/1.", "#show h/2.", "#show g/1.", "#show X : h(X)."]))
    return "\n".join(stms), "+".join(sorted(set(names)))


# ---------------------------------------------------------------- cleanup (C08)
def _args(t: T, vars_: list[str], n: int, allow_anon: bool = True) -> str:
    out = []
    for _ in range(n):
        k = t.i(0, 11)
        if k < 8:
            out.append(t.one(vars_))
        elif k < 9 and allow_anon:
            out.append("_")
        elif k < 10:
            out.append(t.num(0, 2))
        elif k < 11:
            out.append(f"f({t.one(vars_)})")
        else:
            out.append(f"{t.one(vars_)}+1")
    return ",".join(out)


def cleanup_program(draw: Callable) -> tuple[str, str]:
    """heads implying body atoms; users whose literals are / are not implied"""
    t = T(draw)
    names = []
    stms: list[str] = []
    vs = ["X", "Y"]
    # defining rules of h/2 (1..3 of them, different bodies and head kinds); the first literal binds X and Y
    nrules = t.i(1, 3)
    for _ in range(nrules):
        hargs = t.one(["X,Y", "X,Y", "Y,X", "X,X", "X,1", "X,f(Y)"])
        body = [t.one(["q(X,Y)", "q(X,Y)", "q(Y,X)", "r(X,Y)", "p(X), p(Y)"])]
        for _ in range(t.i(0, 2)):
            body.append(t.one([f"p({_args(t, vs, 1, False)})", f"r({_args(t, vs, 2)})", f"q({_args(t, vs, 2)})", f"{t.neg(100)}p({t.one(vs)})", f"{t.neg(100)}r({_args(t, vs, 2, False)})", f"X {t.op()} Y", "p(X)", "p(Y)", "q(X,Y)", "r(Y,X)"]))
        k = t.i(0, 9)
        if t.p(30):
            body = body[1:] + body[:1]
        b = ", ".join(body)
        if k < 5:
            stms.append(f"h({hargs}) :- {b}.")
            names.append("plain")
        elif k < 7:
            stms.append(f"{{ h({hargs}) : {body[0]} }} :- {', '.join(body[1:]) or 'p(0)'}." if len(body) == 1 or t.p(50) else f"{{ h({hargs}) : {body[-1]} }} :- {', '.join(body[:-1])}.")
            names.append("choice")
        elif k < 8:
            stms.append(f"h({hargs}) ; g(X) :- {b}.")
            names.append("disjunction")
        elif k < 9:
            stms.append(f"#sum{{ 1,Y : h({hargs}) : {body[-1]} }} <= 1 :- {', '.join(body[:-1]) or 'q(X,Y)'}.")
            names.append("headagg")
        else:
            stms.append(f"h({hargs}) : {body[-1]} :- {', '.join(body[:-1]) or 'q(X,Y)'}.")
            names.append("condhead")
    if t.p(35):  # implication chain through a second predicate
        stms.append(t.one(["k(X,Y) :- h(X,Y), p(X).", "k(X,Y) :- h(Y,X).", "k(X,Y) :- h(X,Y), not r(X,Y).", "k(X,Y) :- h(X,Y). k(X,Y) :- q(X,Y), p(X)."]))
        names.append("chain")
    # users: (literal, variables it binds)
    user_atoms = [("h(A,B)", "AB"), ("h(A,B)", "AB"), ("h(B,A)", "AB"), ("h(A,A)", "A"), ("h(A,_)", "A"), ("k(A,B)", "AB"), ("k(B,A)", "AB")]
    extra = [
        ("q(A,B)", "AB"), ("q(B,A)", "AB"), ("q(A,_)", "A"), ("q(_,B)", "B"), ("q(A,A)", "A"), ("p(A)", "A"), ("p(B)", "B"), ("r(A,B)", "AB"), ("r(B,A)", "AB"),
        ("not p(A)", ""), ("not p(B)", ""), ("not r(A,B)", ""), ("not not p(A)", ""), ("not not q(A,B)", ""), ("not q(A,B)", ""), ("h(A,_)", "A"), ("h(_,B)", "B"),
        ("not h(A,B)", ""), ("not not h(A,B)", ""), ("#true", ""), ("#false", ""), ("not #false", ""), ("p(A) : #true", ""), ("p(A) : #false", ""),
        ("q(A,B) : p(A), q(A,B)", ""), ("not p(C) : q(A,C), p(A)", ""),
    ]
    for _ in range(t.i(1, 3)):
        chosen = [t.one(user_atoms)] + [t.one(extra) for _ in range(t.i(1, 3))]
        bound = "".join(b for _, b in chosen)
        if "A" not in bound:
            chosen.append(("p(A)", "A"))
        if "B" not in bound:
            chosen.append(t.one([("p(B)", "B"), ("q(A,B)", "AB")]))
        order = [x for x, _ in chosen]
        if t.p(50):
            order = order[1:] + order[:1]
        k = t.i(0, 9)
        b = "; ".join(order)
        if k < 4:
            stms.append(f"u(A,B) :- {b}.")
        elif k < 6:
            stms.append(f":- {b}.")
        elif k < 7:
            stms.append(f":~ {b}. [1@{t.num(0, 1)},A,B]")
        elif k < 9:
            conds = ", ".join(x for x in order if ":" not in x and not x.startswith("#"))
            stms.append(f"c(A) :- p(A), #sum{{ B : {conds}; 1,x : #true; 2,y : #false, p(A) }} {t.op()} {t.num(0, 3)}.")
        else:
            conds = ", ".join(x for x in order if ":" not in x)
            stms.append(f"c(A) :- p(A), u2(B) : {conds}.")
    stms = t.context(["p", "q", "r"]) + stms
    return "\n".join(stms), "cleanup:" + "+".join(sorted(set(names)))


# ---------------------------------------------------------------- unused (C09)
def unused_program(draw: Callable) -> tuple[str, str]:
    """copy rules, unused positions, predicates only observed by particular statement kinds"""
    t = T(draw)
    stms: list[str] = []
    names = []
    # a derived predicate with possibly unused positions
    stms.append(t.one(["a(X,Y) :- q(X,Y).", "a(X,Y) :- q(X,Y), p(X).", "a(X,Y,Z) :- q(X,Y), r(Y,Z).", "{ a(X,Y) : q(X,Y) }.", "a(X,Y) ; na(X,Y) :- q(X,Y).", "a(X,Y) :- q(X,Y). a(X,Y) :- r(X,Y)."]))
    # copy rules / chains
    for _ in range(t.i(0, 3)):
        c = t.one(
            [
                "b(X,Y) :- a(X,Y).", "b(Y,X) :- a(X,Y).", "b(X,X) :- a(X,X).", "b(X,Y) :- a(X,Y). b(X,Y) :- r(X,Y).", "b(X,Y) :- a(Y,X).",
                "c(X,Y) :- b(X,Y).", "c(X,Y) :- b(Y,X).", "b(X,Y) :- a(X,Y,_).", "b(X,Y) :- a(X,_,Y).", "b(X,1) :- a(X,_).", "b(X,Y) :- a(X,Y), p(X).",
                "b(X,Y) :- not a(X,Y), q(X,Y).", "b(X) :- a(X,_).", "b(X) :- a(_,X).", "b(X,Y) :- a(X,X), p(Y).", "e(X) :- b(X,_), not c(X,X).",
            ]
        )
        stms.append(c)
        names.append("copy")
    # observers of different kinds
    for _ in range(t.i(1, 4)):
        o = t.one(
            [
                ":- b(X,_), p(X).", ":- b(X,Y), X < Y.", "out(X) :- b(X,_).", "out(X) :- c(_,X).", "out(X) :- a(X,_).", "{ out(X) } :- b(X,Y).",
                "out(X) : b(X,_) :- p(X).", "out(X) ; out2(X) :- b(X,_).", "out(N) :- N = #count{ X : b(X,_) }.", "out(N) :- N = #sum{ Y,X : c(X,Y) }.",
                ":~ b(X,_). [1@1,X]", ":~ c(X,Y). [Y@0]", "#minimize{ 1,X : a(X,_) }.", "#show b/2.", "#show c/2.", "#show X : b(X,_).", "#show e/1.",
                "#show p(X) : e(X).", "#external b(X,Y) : q(X,Y).", "#project b/2.", "#project c(X,Y) : q(X,Y).", "#heuristic b(X,Y) : q(X,Y). [1,true]",
                "#edge (X,Y) : b(X,Y).", "1 { out(X) : b(X,_) } 1.", "#sum{ 1,X : out(X) : b(X,_) } <= 1.", "out(X) :- p(X), not b(X,_).", "out :- b(_,_).", "out :- not c(_,_).",
            ]
        )
        stms.append(o)
    stms = t.context(["p", "q", "r"]) + stms
    return "\n".join(stms), "unused:" + "+".join(sorted(set(names)) or ["plain"])
