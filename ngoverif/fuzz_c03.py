"""Coverage-guided stage of C03's thorough tier: atheris (libFuzzer) drives the bytes behind the Hypothesis
strategy of C03 (`fuzz_one_input`), ngo is instrumented for coverage, and the oracle sits inside the target:
optimize must return (no exception, no provable fix-point cycle).  A finding that no open entry of
known_findings.json explains is written to <outdir>/crash_<n>.json and ends the campaign of this process.

usage: python -m ngoverif.fuzz_c03 <outdir> <seconds> <seed>
The campaign is only approximately reproducible (-seed, fresh corpus directory); the saved case is the reproducible unit.
"""

import json
import os
import sys


def main() -> int:
    """run one campaign"""
    outdir, seconds, seed = sys.argv[1], int(sys.argv[2]), int(sys.argv[3])
    os.makedirs(outdir, exist_ok=True)
    from . import env  # pylint: disable=import-outside-toplevel

    if env.DEPS not in sys.path and os.path.isdir(env.DEPS):
        sys.path.append(env.DEPS)
    try:
        import atheris  # pylint: disable=import-outside-toplevel
    except ImportError:
        print("atheris not available")
        return 3
    if env.SRC in sys.path:
        sys.path.remove(env.SRC)
    sys.path.insert(0, env.SRC)
    with atheris.instrument_imports(include=["ngo"]):  # ngo must be imported for the first time here
        import ngo  # noqa: F401  pylint: disable=import-outside-toplevel,unused-import
        import ngo.api  # noqa: F401  pylint: disable=import-outside-toplevel,unused-import
    env.setup()  # asserts that ngo really comes from the working tree
    from hypothesis import HealthCheck, given, settings  # pylint: disable=import-outside-toplevel

    from . import findings  # pylint: disable=import-outside-toplevel
    from .props import c03  # pylint: disable=import-outside-toplevel
    from .runner import plain_generation  # pylint: disable=import-outside-toplevel

    plain_generation()
    stats = {"executions": 0, "known": 0, "discards": 0, "crashes": 0}

    @settings(database=None, deadline=None, suppress_health_check=list(HealthCheck))
    @given(c03.strategy("thorough"))
    def target(case):  # type: ignore
        case.extra["cli"] = False
        stats["executions"] += 1
        if stats["executions"] % 50 == 0:  # atexit handlers do not run under libFuzzer
            with open(os.path.join(outdir, "stats.json"), "w", encoding="utf8") as fh:
                json.dump(stats, fh)
        out = c03.evaluate(case, "quick")
        if out.status == "discard":
            stats["discards"] += 1
        if out.status == "fail":
            if findings.match("C03", case.to_json(), out.failure):
                stats["known"] += 1
                return
            stats["crashes"] += 1
            with open(os.path.join(outdir, f"crash_{stats['crashes']}.json"), "w", encoding="utf8") as fh:
                json.dump({"case": case.to_json(), "failure": out.failure, "stage": "atheris"}, fh, default=str)
            with open(os.path.join(outdir, "stats.json"), "w", encoding="utf8") as fh:
                json.dump(stats, fh)
            os._exit(0)  # first unexplained failure ends this campaign (libFuzzer would stop anyway)

    corpus = os.path.join(outdir, "corpus")
    os.makedirs(corpus, exist_ok=True)
    argv = [sys.argv[0], f"-max_total_time={seconds}", f"-seed={seed or 1}", "-rss_limit_mb=6000", "-max_len=4096", "-print_final_stats=0", "-verbosity=0", corpus]

    import atexit  # pylint: disable=import-outside-toplevel

    def dump() -> None:
        with open(os.path.join(outdir, "stats.json"), "w", encoding="utf8") as fh:
            json.dump(stats, fh)

    atexit.register(dump)
    atheris.Setup(argv, target.hypothesis.fuzz_one_input)
    try:
        atheris.Fuzz()
    finally:
        dump()
    return 0


if __name__ == "__main__":
    sys.exit(main())
